"""Binding of Grouping.tla to the implementation: the StageDone / GroupParams hook events of a real `fclones group` run
are turned into one run of the ndjson trace validated by Trace_Grouping.tla.  The input record of the run (identity, root,
length and the classes of the byte windows of every scanned path) is computed here from the bytes on disk."""
import json
import os
import stat

import gg
import lib

MIN_PREFIX = 4096


def expected_params(cfg):
    """Effective prefix length, suffix length and suffix threshold the documentation/device table promises for a pinned
    device kind (None when the kind is left to detection)."""
    kind = cfg.get("disk_kind")
    if kind is None:
        return None
    ssd = kind == "ssd"
    return {"prefix_len": cfg["max_prefix"] if cfg.get("max_prefix") is not None else (4096 if ssd else 16384),
            "suffix_len": cfg["max_suffix"] if cfg.get("max_suffix") is not None else (4096 if ssd else 16384),
            "suffix_threshold": 65536 if ssd else 64 * 1024 * 1024}


def read_events(trace_path):
    evs = []
    if not os.path.exists(trace_path):
        return evs
    with open(trace_path, encoding="utf-8") as f:
        for line in f:
            if '"StageDone"' in line or '"GroupParams"' in line:
                evs.append(json.loads(line))
    return evs


def build_run(rid, tree, cfg, events):
    """Returns (lines, problem): the ndjson lines of one run for Trace_Grouping, or the reason why none can be built."""
    scanned = []
    for f in tree.files:
        p = tree.path[f["id"]]
        if os.path.islink(p) and not cfg.get("symlinks"):
            continue
        scanned.append((p, (gg.ROOTS.index(f["root"]) + 1) if cfg.get("isolate") else 0))
    return build_run_from_paths(rid, scanned, cfg, events, ())


def build_run_from_paths(rid, scanned, cfg, events, bad):
    """scanned: (absolute path, isolate root index) of every path the scan is expected to select; bad: paths through which the file
    cannot be read in this run (fault injection)."""
    params = {}
    for e in events:
        if e["ev"] == "GroupParams":
            params.update({k: v for k, v in e.items() if k in ("prefix_len", "suffix_len", "suffix_threshold")})
    stages = [e for e in events if e["ev"] == "StageDone" and e["stage"] != "size"]
    tname = cfg.get("transform")
    if tname:
        # --transform: one stage over all files; its only event is the final one
        if [e["stage"] for e in stages] != ["done"]:
            return None, "unexpected stage sequence %s" % [e["stage"] for e in stages]
        P = S = T = 0
    else:
        if [e["stage"] for e in stages] == ["paths", "prefix", "suffix", "done"] and len(params) < 3:
            return None, "stage parameters missing"
        if [e["stage"] for e in stages] != ["paths", "prefix", "suffix", "done"]:
            return None, "unexpected stage sequence %s" % [e["stage"] for e in stages]
        exp = expected_params(cfg)
        if exp is not None and exp != params:
            return None, "stage parameters %s differ from the documented %s" % (params, exp)
        P, S, T = params["prefix_len"], params["suffix_len"], params["suffix_threshold"]
    tf = gg.TRANSFORMS[tname][1] if tname else None
    kind, rf = gg.eff_filter(cfg)
    files = []
    index = {}
    inos, atoms = {}, {}          # one name space of atoms for all windows: equal atom <=> equal byte string
    for p, root in scanned:
        st = os.stat(p)
        if not stat.S_ISREG(st.st_mode) or st.st_size < cfg.get("min_size", 1) or st.st_size > cfg.get("max_size", 1 << 62):
            continue
        with open(p, "rb") as fh:
            data = fh.read()
        n = len(data)
        pk = data[:n] if n <= P else data[:MIN_PREFIX]
        sk = data[n - min(S, n):]
        out = tf(data) if tf else data
        files.append({"ino": inos.setdefault((st.st_dev, st.st_ino), len(inos) + 1), "root": root,
                      "len": n, "pk": atoms.setdefault(pk, len(atoms) + 1), "sk": atoms.setdefault(sk, len(atoms) + 1), "ck": atoms.setdefault(data, len(atoms) + 1),
                      "tlen": len(out), "tk": atoms.setdefault(out, len(atoms) + 1)})
        index[os.path.normpath(p)] = len(files)
    bad_ids = sorted(index[os.path.normpath(b)] for b in bad if os.path.normpath(b) in index)
    lines = [json.dumps({"ev": "Reset", "run": rid, "inp": {"files": files, "bad": bad_ids,
                                                           "cfg": {"kind": kind, "rf": rf, "isolate": bool(cfg.get("isolate")),
                                                                   "matchLinks": bool(cfg.get("matchLinks")),
                                                                   "skipContent": bool(cfg.get("skip_content")), "transform": bool(tname), "P": P, "T": T}}})]
    for e in stages:
        groups = []
        for g in e["groups"]:
            ids = []
            for q in g["files"]:
                q = os.path.normpath(os.fsdecode(q.encode("latin-1")))
                if q not in index:
                    return None, "stage %s lists %s, which the driver did not expect to be scanned" % (e["stage"], q)
                ids.append(index[q])
            groups.append(sorted(set(ids)))
        lines.append(json.dumps({"ev": "StageDone", "run": rid, "stage": e["stage"], "groups": groups}))
    return lines, None


def validate(chk, pid, runs, facts_of):
    """runs: list of (rid, lines). Validates them in one TLC run; records coverage, divergences and invariant failures."""
    if not runs:
        return
    d = lib.mkscratch("gtr", base=lib.BUILD)
    try:
        path = os.path.join(d, "trace.ndjson")
        with open(path, "w") as f:
            for rid, lines in runs:
                for ln in lines:
                    f.write(ln + "\n")
        problems, stats = lib.validate_traces("Trace_Grouping.tla", "Trace_Grouping.cfg", path, max_problems=6, timeout=1800)
        chk.cov["tlc_runs"].append({"config": "Trace_Grouping(stage-by-stage validation of real runs)", "distinct_states": stats["states"],
                                    "states_generated": stats["generated"], "runs": stats["runs"], "events": stats["events"]})
        chk.cov["states"] += stats["states"]
        chk.cov["transitions"] += stats["generated"]
        chk.cov["stage_traces_validated"] = stats["runs"] - len(problems)
        for p in problems:
            rid = p["run"][0].get("run") if p["run"] else None
            f = facts_of(rid) or {}
            if p["kind"] == "invariant":
                chk.violation(f"{pid}/stage-invariant {p['name']} stage={p['event'].get('stage')} opts={' '.join(f.get('args', [])[4:])}",
                              f"invariant {p['name']} of Grouping.tla is false on the candidate sets the real run reported after stage {p['event'].get('stage')}",
                              {"facts": f, "run": p["run"][:12]})
            else:
                chk.divergences += 1
                with open(os.path.join(lib.BUILD, f"divergence_{pid}_{chk.divergences}.json"), "w") as fh:
                    json.dump({"args": f.get("args"), "cfg": f.get("cfg"), "run": p["run"]}, fh, indent=1)
                st_ = p["event"].get("stage") if isinstance(p["event"], dict) else None
                print(f"DIVERGENCE property={pid} candidate sets after stage {st_} differ from Grouping.tla: fclones {' '.join(f.get('args', []))} "
                      f"event={json.dumps(p['event'])[:300]} input={json.dumps(p['run'][0])[:600] if p['run'] else None}")
    finally:
        lib.rmtree(d)
