"""C15: an unreadable or vanishing file affects only itself."""
import json
import os
import random
import shutil
import sys

import c13
import gg
import gtrace
import lib

ERR = {"EACCES": 13, "EIO": 5, "ENOENT": 2}
CALLS = ("stat", "lstat", "openr", "read", "opendir", "readdir", "readlink", "fiemap")


def build(work, variant):
    base = os.path.join(work, "b")
    big = gg.base_bytes(7, 140001)[:140001]
    mid = gg.base_bytes(8, 70000)[:70000]
    small = b"small-content" * 20
    layout = {"d1/a": big, "d1/b": big, "d1/c": small, "d2/d": big, "d2/e": small, "d2/s/g": mid, "d2/s/h": mid, "d1/m": gg.flip(mid, 69999), "d2/u": b"unique"}
    if variant == 1:
        layout["d2/s/t/i"] = small
        layout["d1/k"] = gg.flip(big, 100000)
    for rel, data in layout.items():
        lib.write_file(os.path.join(base, rel), data)
    os.link(os.path.join(base, "d1/a"), os.path.join(base, "d2/hl"))
    if variant == 2:
        # symbolic links to files, reported as links with -S: the scan resolves them (readlink, then stat of the target)
        os.symlink("../d1/c", os.path.join(base, "d2/ln_c"))
        os.symlink("../d2/s/g", os.path.join(base, "d1/ln_g"))
    return base


def run(base, work, plan, disk, extra, logf=None, trace=None):
    env = lib.base_env(work, disk_kind=disk, trace=trace)
    env["RAYON_NUM_THREADS"] = "1"
    senv = lib.shim_env(env, log_path=logf, root=base, plan=plan) if (plan or logf) else env
    return lib.run_fclones(["group", "b", "--threads", "1"] + extra, work, senv, timeout=60)


def calibrate(variant, disk, extra):
    work = lib.mkscratch("c15c")
    try:
        base = build(work, variant)
        logf = os.path.join(work, "cal.log")
        r = run(base, work, None, disk, extra, logf)
        log = lib.read_shim_log(logf)
        pos = {}
        opens = {}
        for i, e in enumerate(log):
            if e["call"] in CALLS and e.get("p1", "").startswith(base + "/") and e["ret"] >= 0:      # only calls that succeed naturally
                key = (e["call"], os.path.relpath(e["p1"], base))
                pos[key] = pos.get(key, 0) + 1
                if e["call"] == "openr":
                    # an open that only serves the extent query does not read the file
                    nxt = next((x for x in log[i + 1:] if x.get("p1") == e["p1"]), None)
                    opens.setdefault(key, []).append("fiemap" if nxt and nxt["call"] == "fiemap" else "data")
        for key, kinds in opens.items():
            # `the path cannot be opened from its k-th open on` is a read failure only if a data open is among them
            last_data = max((i + 1 for i, k in enumerate(kinds) if k == "data"), default=0)
            pos[key] = last_data
        return pos, c13.body(r.out)
    finally:
        lib.rmtree(work)


def one(t):
    variant, disk, extra, faults = t
    work = lib.mkscratch("c15")
    try:
        base = build(work, variant)
        rules = []
        for call, rel, nth, e in faults:
            # open: the path cannot be opened any more from its nth open on (the hasher retries a failed O_NOATIME open)
            rules.append(f"{call}|/b/{rel}|{-nth if call == 'openr' else nth}|fail={ERR[e]}")
        plan = ";;".join(rules)
        # path substring must not match a longer sibling: all names are distinct non-prefixes except directories (handled by the trailing check below)
        logf = os.path.join(work, "f.log")
        trace = os.path.join(work, "stages.ndjson")
        r = run(base, work, plan, disk, extra, logf, trace=trace)
        log = lib.read_shim_log(logf)
        injected = [e for e in log if e.get("inj") == 1]
        # an open that only serves the extent query (plain O_RDONLY; the hasher opens with O_NOATIME first) is not a read: if no
        # hashing open of that path was attempted in this run, the entry was never found unreadable
        O_NOATIME = 0o1000000
        hashing_open = {e["p1"] for e in injected if e["call"] == "openr" and (e.get("a", 0) & O_NOATIME)}
        if "--transform" not in extra:        # (with --transform every open of a file serves the copy handed to the program)
            injected = [e for e in injected if e["call"] != "openr" or e["p1"] in hashing_open]
        res = {"faults": faults, "disk": disk, "extra": extra, "rc": r.rc, "stderr": r.err.decode("utf-8", "replace")[-700:], "injected": len(injected),
               "injected_errnos": sorted({e["errno"] for e in injected}),
               "timeout": r.timed_out, "panicked": r.panicked}
        if not injected:
            res["skip"] = "fault position not reached"
            return res
        warned = b"warn" in r.err
        res["warned"] = warned
        # which entries count as 'not there': the path of each injected call; for a failed readdir the entries that were not delivered
        removed = []
        for e in injected:
            p = e["p1"]
            if e["call"] in ("stat", "lstat"):
                # the stat that follows a readlink belongs to the LINK being resolved: it is the link that cannot be used
                i_ = log.index(e)
                prev = next((x for x in reversed(log[max(0, i_ - 4):i_]) if x.get("tid") == e.get("tid") and x["call"] == "readlink" and x["ret"] >= 0), None)
                if prev and os.path.realpath(prev["p1"]) == os.path.realpath(p):
                    p = prev["p1"]
            if e["call"] == "readdir":
                delivered = {os.path.basename(x["p2"]) for x in log if x["call"] == "readdir" and x.get("p1") == p and x.get("p2") and x["ret"] == 0}
                for n in os.listdir(p):
                    if n not in delivered:
                        removed.append(os.path.join(p, n))
            else:
                removed.append(p)
        res["removed"] = [os.path.relpath(x, base) for x in removed]
        # the same run stage by stage against Grouping.tla: entries lost during the walk are not part of the input, paths whose
        # open / read failed are the specification's unreadable paths
        lost = set()
        for e in injected:
            if e["call"] in ("stat", "lstat", "opendir", "readlink"):
                lost.add(e["p1"])
            elif e["call"] == "readdir":
                delivered = {os.path.basename(x["p2"]) for x in log if x["call"] == "readdir" and x.get("p1") == e["p1"] and x.get("p2") and x["ret"] == 0}
                lost |= {os.path.join(e["p1"], n) for n in os.listdir(e["p1"]) if n not in delivered}
        unreadable = {e["p1"] for e in injected if e["call"] in ("openr", "read")}
        if r.rc == 0 and not r.timed_out and "--transform" not in extra:
            scanned = []
            for root, dirs, names in os.walk(base):
                for n in names:
                    p = os.path.join(root, n)
                    if (os.path.islink(p) and "-S" not in extra) or any(p == x or p.startswith(x + "/") for x in lost):
                        continue
                    scanned.append((p, 0))
            gcfg = {"disk_kind": disk, "unique": "--unique" in extra, "symlinks": "-S" in extra}
            if "--rf-over" in extra:
                gcfg["rf_over"] = int(extra[extra.index("--rf-over") + 1])
            res["stage_lines"], res["stage_problem"] = gtrace.build_run_from_paths(0, scanned, gcfg, gtrace.read_events(trace), unreadable)
        for p in removed:
            if os.path.isdir(p) and not os.path.islink(p):
                shutil.rmtree(p)
            elif os.path.lexists(p):
                os.remove(p)
        ref = run(base, work, None, disk, extra)
        # same groups (sizes and paths); the printed hash of a group may legitimately differ - a file left alone in its size class is
        # passed through unhashed - and with it the order among groups of one size
        shape = lambda out: sorted((g["len"], tuple(g["paths"])) for g in gg.parse_text_report(out)[1])
        res["body_equal"] = shape(r.out) == shape(ref.out)
        if not res["body_equal"]:
            res["diff"] = c13.diff(c13.body(ref.out), c13.body(r.out))
        res["ref_rc"] = ref.rc
        return res
    finally:
        lib.rmtree(work)


def transform_cache_case(nth):
    """--transform with $IN --no-copy and --cache, two runs on the same cache while one input stays unreadable from its nth read on
    (the read fails inside the transform program): the file must never be reported, in particular not with a hash of its readable part."""
    work = lib.mkscratch("c15t")
    try:
        base = os.path.join(work, "b")
        big = gg.base_bytes(21, 400000)[:400000]
        lib.write_file(os.path.join(base, "t/whole1"), big)
        lib.write_file(os.path.join(base, "t/whole2"), big)
        lib.write_file(os.path.join(base, "t/broken"), big[:131072] + b"different tail" * 1000)
        lib.write_file(os.path.join(base, "t/prefix"), big[:131072])           # equals the part of `broken` that can be read
        bind = os.path.join(work, "bin")
        os.makedirs(bind)
        with open(os.path.join(bind, "vt_catin"), "w") as f:
            f.write('#!/bin/sh\nexec cat "$1"\n')
        os.chmod(os.path.join(bind, "vt_catin"), 0o755)
        env = lib.base_env(work, disk_kind="ssd")
        env["PATH"] = bind + ":" + env["PATH"]
        env["RAYON_NUM_THREADS"] = "1"
        args = ["group", "b", "--threads", "1", "--transform", "vt_catin $IN", "--no-copy", "--cache", "--rf-over", "1"]
        plan = f"read|/b/t/broken|{-nth}|fail=5"
        outs = []
        for i in range(2):
            senv = lib.shim_env(env, log_path=os.path.join(work, f"l{i}.log"), root=base, plan=plan)
            r = lib.run_fclones(args, work, senv, timeout=60)
            outs.append(r)
        injected = sum(1 for e in lib.read_shim_log(os.path.join(work, "l1.log")) if e.get("inj") == 1)
        os.remove(os.path.join(base, "t/broken"))
        ref = lib.run_fclones([a for a in args if a != "--cache"], work, env, timeout=60)
        shape = lambda out: [(g["len"], g["paths"]) for g in gg.parse_text_report(out)[1]]
        return {"faults": [("read", "t/broken", nth, "EIO")], "disk": "ssd", "extra": ["--transform", "vt_catin $IN", "--no-copy", "--cache", "(2nd run)"],
                "rc": outs[1].rc, "stderr": outs[1].err.decode("utf-8", "replace")[-700:], "injected": injected + 1, "timeout": outs[1].timed_out,
                "panicked": outs[1].panicked, "warned": b"warn" in outs[1].err or b"warn" in outs[0].err, "removed": ["t/broken"],
                "body_equal": shape(outs[1].out) == shape(ref.out) and shape(outs[0].out) == shape(ref.out),
                "diff": c13.diff(c13.body(ref.out), c13.body(outs[1].out)), "ref_rc": ref.rc}
    finally:
        lib.rmtree(work)


def missing_root_case(k_):
    """Input paths read from standard input (no start-up validation): one of three does not exist. The others must be scanned as if it
    had not been named, wherever it stands in the list."""
    work = lib.mkscratch("c15r")
    try:
        base = build(work, 0)
        roots = ["b/d1", "b/d2/s", "b/d2"]
        roots.insert(k_, "b/no-such-root")
        env = lib.base_env(work, disk_kind="ssd")
        env["RAYON_NUM_THREADS"] = "1"
        args = ["group", "--stdin", "--threads", "1", "--rf-over", "0"]
        r = lib.run_fclones(args, work, env, stdin=("\n".join(roots) + "\n").encode(), timeout=60)
        ref = lib.run_fclones(args, work, env, stdin=("\n".join(x for x in roots if x != "b/no-such-root") + "\n").encode(), timeout=60)
        shape = lambda out: sorted((g["len"], tuple(g["paths"])) for g in gg.parse_text_report(out)[1])
        return {"faults": [("stat", "no-such-root", k_ + 1, "ENOENT")], "disk": "ssd", "extra": ["--stdin", "(missing path at position %d of 4)" % (k_ + 1)],
                "rc": r.rc, "stderr": r.err.decode("utf-8", "replace")[-700:], "injected": 1, "injected_errnos": [2], "timeout": r.timed_out, "panicked": r.panicked,
                "warned": b"warn" in r.err, "removed": ["no-such-root"], "body_equal": shape(r.out) == shape(ref.out),
                "diff": c13.diff(c13.body(ref.out), c13.body(r.out)), "ref_rc": ref.rc}
    finally:
        lib.rmtree(work)


def transform_signal_case(sig, cache):
    """--transform whose program dies from a signal (what an I/O error on a memory-mapped input does) after writing the readable
    part of one input: that input must be left out with a warning, never grouped with a file equal to its readable part."""
    work = lib.mkscratch("c15s")
    try:
        base = os.path.join(work, "b")
        big = gg.base_bytes(22, 300000)[:300000]
        lib.write_file(os.path.join(base, "t/whole1"), big)
        lib.write_file(os.path.join(base, "t/whole2"), big)
        lib.write_file(os.path.join(base, "t/broken"), big[:100000] + b"unreadable tail" * 1000)
        lib.write_file(os.path.join(base, "t/prefix"), big[:100000])            # equals what the program manages to write for `broken`
        bind = os.path.join(work, "bin")
        os.makedirs(bind)
        with open(os.path.join(bind, "vt_sig"), "w") as f:
            f.write('#!/bin/sh\ncase "$1" in\n  */broken) head -c 100000 "$1"; kill -%s $$; sleep 5;;\n  *) exec cat "$1";;\nesac\n' % sig)
        os.chmod(os.path.join(bind, "vt_sig"), 0o755)
        env = lib.base_env(work, disk_kind="ssd")
        env["PATH"] = bind + ":" + env["PATH"]
        args = ["group", "b", "--threads", "1", "--transform", "vt_sig $IN", "--no-copy", "--rf-over", "1"] + (["--cache"] if cache else [])
        outs = [lib.run_fclones(args, work, env, timeout=60) for _ in range(2 if cache else 1)]
        os.remove(os.path.join(base, "t/broken"))
        ref = lib.run_fclones([a for a in args if a != "--cache"], work, env, timeout=60)
        shape = lambda out: [(g["len"], g["paths"]) for g in gg.parse_text_report(out)[1]]
        last = outs[-1]
        return {"faults": [("transform-killed", "t/broken", 1, "SIG" + sig)], "disk": "ssd", "extra": args[5:], "rc": last.rc,
                "stderr": last.err.decode("utf-8", "replace")[-700:], "injected": 1, "timeout": last.timed_out, "panicked": last.panicked,
                "warned": any(b"warn" in o.err.lower() for o in outs), "removed": ["t/broken"],
                "body_equal": all(shape(o.out) == shape(ref.out) for o in outs), "diff": c13.diff(c13.body(ref.out), c13.body(last.out)), "ref_rc": ref.rc}
    finally:
        lib.rmtree(work)


def main(tier):
    chk = lib.Check("C15", tier)
    thorough = tier == "thorough"
    chk.assumptions = ["faults are injected from the walk onwards (the start-up validation of the input paths is documented fail-fast behaviour)",
                       "`as if it had not been there`: the reference is a fault-free run on the same tree after deleting the entry (for a directory its subtree; "
                       "for a failed readdir the entries that were not delivered)", "single walk/hash thread so that call ordinals are reproducible"]
    cfg = os.path.join(lib.BUILD, "GroupFaults_run.cfg")
    with open(cfg, "w") as f:
        f.write(f"CONSTANTS\n  NFiles = {4 if thorough else 3}\n  MaxFaults = {1}\n  RfSet <- MCRf\nSPECIFICATION Spec\nINVARIANTS Complete Isolated\nCHECK_DEADLOCK FALSE\n")
    res = lib.run_tlc("MC_GroupFaults.tla", cfg, workers=12, timeout=3000, coverage=False)
    chk.add_tlc("MC_GroupFaults(Complete, Isolated)", res)
    if res.violation:
        chk.violation(f"C15/model {res.violation}", "the staged-pipeline model violates " + res.violation, {"tlc": res.output[-2500:]})
        return chk.finish()
    lib.build_all()
    rng = random.Random(chk.seed + 15)
    cases = []
    # the last: --transform in copy mode ($IN without --no-copy: every file is copied to a temporary directory before the program reads it)
    setups = [(0, "ssd", []), (1, "hdd", []), (0, None, ["--rf-over", "0"]), (1, "ssd", ["--unique"]), (2, "ssd", ["-S"]), (0, "ssd", ["--transform", "cat $IN"])]
    for variant, disk, extra in setups:
        pos, _ = calibrate(variant, disk, extra)
        singles = []
        for (call, rel), n in sorted(pos.items()):
            for nth in range(1, n + 1):
                for e in ERR:
                    if call in ("fiemap", "readdir") and e == "ENOENT":
                        continue            # not an error these calls report for a vanished entry
                    singles.append((call, rel, nth, e))
        if variant == 2:
            # only the calls that resolve the links (on the link itself, or on its target spelled through the link's directory): a fault
            # on the target's own entry would leave the link usable, which `as if the entry were not there` cannot express by deletion
            singles = [s_ for s_ in singles if "/ln_" in "/" + s_[1] or "/../" in s_[1]]
        if not thorough:
            rng.shuffle(singles)
            singles = singles[:110]
        for s in singles:
            cases.append((variant, disk, extra, [s]))
        pairs = [(a, b) for a in singles for b in singles if a[1] != b[1]]
        rng.shuffle(pairs)
        for a, b in pairs[:(150 if thorough else 25)]:
            cases.append((variant, disk, extra, [a, b]))
    lib.log(f"[C15] {len(cases)} faulted runs")
    results = lib.pmap(one, cases, workers=12)
    results += [transform_cache_case(n) for n in (1, 2, 3)]
    results += [missing_root_case(k_) for k_ in (0, 1, 2)]
    results += [transform_signal_case(sg, c) for sg, c in (("KILL", False), ("BUS", False), ("SEGV", True))]
    done = [r for r in results if "skip" not in r]
    nontrivial = set()
    for r in done:
        fdesc = "+".join(f"{c}:{rel}#{n}:{e}" for c, rel, n, e in r["faults"])
        cls = "+".join(sorted({f"{c}:{e}" + (":same-id-run" if rel in ("d1/a", "d2/hl") else "") for c, rel, n, e in r["faults"]}))
        sig = f"faults={fdesc} disk={r['disk']} opts={' '.join(r['extra']) or '-'}"
        nontrivial.add(fdesc + str(r["extra"]))
        if r["timeout"] or r["panicked"] or r["rc"] != 0:
            chk.violation(f"C15/run-failed class={cls} {sig}", f"`group` did not finish successfully (rc={r['rc']}): {r['stderr'][-200:]}", r)
            continue
        if not r["body_equal"]:
            chk.violation(f"C15/others-affected class={cls} {sig}", f"the report differs from the report of the tree without {r['removed']}: {r.get('diff')}", r)
        if not r["warned"] and any(e != 2 for e in r.get("injected_errnos", [5])):        # only faults that really fired count
            chk.violation(f"C15/no-warning class={cls} {sig}", "an entry could not be read (not ENOENT) but no warning was logged", r)
    staged = []
    for n_, r in enumerate(done):
        if r.get("stage_lines"):
            staged.append((n_, [ln.replace('"run": 0', '"run": %d' % n_, 1) for ln in r["stage_lines"]]))
        elif r.get("stage_problem"):
            chk.divergences += 1
            print(f"DIVERGENCE property=C15 no stage trace for faults={r['faults']}: {r['stage_problem']}")
    gtrace.validate(chk, "C15", staged, lambda rid: {"args": ["group", "b", "--threads", "1"] + list(done[rid]["extra"]) + ["faults=%s" % done[rid]["faults"]]} if rid is not None else {})
    for r in done:
        r.pop("stage_lines", None)
    chk.cov["evaluations"] = len(done)
    chk.cov["traces_validated_against_impl"] = len(done)
    chk.cov["distinct_nontrivial"] = len(nontrivial)
    chk.cov["positions_not_reached"] = len(results) - len(done)
    chk.cov["rule"] = ("calibration run lists every stat / lstat / open / n-th read / opendir / n-th readdir / readlink / extent query per path of two scenario trees "
                       "(140 KB and 70 KB duplicates, flips in the last buffer, hard link, symlink, nested directories) under 4 configurations; one real run per (path, call, ordinal, "
                       "errno in EACCES/EIO/ENOENT) and sampled pairs; non-trivial = distinct fault plan whose fault was really injected")
    if done:
        chk.sample({k: v for k, v in done[0].items() if k != "stderr"})
    return chk.finish()


if __name__ == "__main__":
    try:
        sys.exit(main(sys.argv[1] if len(sys.argv) > 1 else "quick"))
    except lib.ToolError as e:
        print("TOOL-ERROR", e, file=sys.stderr)
        sys.exit(2)
