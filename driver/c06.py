import sys
import grp as _g
import lib
if __name__ == "__main__":
    try:
        sys.exit(_g.main("C06", sys.argv[1] if len(sys.argv) > 1 else "quick"))
    except lib.ToolError as e:
        print("TOOL-ERROR", e, file=sys.stderr)
        sys.exit(2)
