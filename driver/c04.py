"""C04: a stale report never causes removal of changed data."""
import json
import os
import random
import re
import shlex
import subprocess
import sys
import time

import c02
import dd
import lib

GAP = 0.03     # every edit keeps >= 30 ms from the instants it is compared with (coarse file-system clock)


def edit_cmd(kind, path, size, workdir):
    q = shlex.quote(path)
    new = shlex.quote(os.path.join(workdir, "newer_target"))
    # the member is replaced by a symbolic link that ends at another member of the group (the data it then shows is only there)
    d_, sib = os.path.dirname(path), {"a": "c", "b": "a", "c": "a"}.get(os.path.basename(path), "a")
    hop = shlex.quote(os.path.join(d_, "sub", "hop-" + os.path.basename(path)))
    body = {
        "same-len": f"head -c {size} /dev/zero | tr '\\0' 'Q' > {q}",
        "other-len": f"head -c {size + 7} /dev/zero | tr '\\0' 'R' > {q}",
        "append": f"printf 'appended' >> {q}",
        "truncate": f"truncate -s {max(size // 2, 1)} {q}",
        "delete": f"rm -f {q}",
        "recreate": f"rm -f {q}; head -c {size} /dev/zero | tr '\\0' 'S' > {q}",
        "dir": f"rm -f {q}; mkdir {q}",
        "symlink-dangling": f"rm -f {q}; ln -s /nonexistent/nowhere {q}",
        "symlink-dir": f"rm -f {q}; ln -s {shlex.quote(workdir)} {q}",
        "symlink-newer": f"rm -f {q}; head -c {size} /dev/zero | tr '\\0' 'T' > {new}; ln -s {new} {q}",
        "touch": f"touch {q}",
        "symlink-sibling": f"rm -f {q}; ln -s {sib} {q}",
        "symlink-sibling-chain": f"rm -f {q}; mkdir -p {shlex.quote(os.path.join(d_, 'sub'))}; ln -sf ../{sib} {hop}; ln -s sub/{'hop-' + os.path.basename(path)} {q}",
        "symlink-sibling-dotdot": f"rm -f {q}; ln -s ../{os.path.basename(d_)}/{sib} {q}",
    }[kind]
    return f"sleep {GAP}; {body}; sleep {GAP}"


def run_history(t):
    k, scen, size, fmt = t
    work = lib.mkscratch("c04")
    try:
        base = os.path.join(work, "b")
        g = os.path.join(base, "g")
        os.makedirs(g)
        data = (b"original-content|" * (size // 17 + 1))[:size]
        for n in ("a", "b", "c"):
            lib.write_file(os.path.join(g, n), data)
        lib.write_file(os.path.join(base, "other"), b"unrelated")
        env = lib.base_env(work, disk_kind="ssd")
        env["RAYON_NUM_THREADS"] = "2"
        tz = [None, "JST-9", "EST5", "UTC0"][k % 4]          # the comparison must not depend on the local time zone
        if tz:
            env["TZ"] = tz
        mids = [e for e in scen["edits"] if e["pos"].startswith("mid")]
        betw = [e for e in scen["edits"] if e["pos"] == "between"]
        plan = ";;".join(f"close|/g/{e['f']}|{e['pos'][3:]}|runafter={edit_cmd(e['kind'], os.path.join(g, e['f']), size, work)}" for e in mids)
        senv = lib.shim_env(env, log_path=os.path.join(work, "shim.log"), root=base, plan=plan or None) if mids else env
        # (a link to another member only matters if link and target are not one replica: hard links / links reported as duplicates)
        gextra = ["-H"] if any(e["kind"].startswith("symlink-sibling") for e in scen["edits"]) and k % 3 else []
        r = lib.run_fclones(["group", "b", "-f", fmt] + gextra, work, senv)
        if r.rc != 0:
            return {"k": k, "scen": scen, "skip": "group failed: " + r.err.decode("utf-8", "replace")[-200:]}
        report = r.out
        fired = 0
        if mids:
            log = lib.read_shim_log(os.path.join(work, "shim.log"))
            closes = {}
            for e in log:
                if e["call"] == "close":
                    closes[os.path.basename(e["p1"])] = closes.get(os.path.basename(e["p1"]), 0) + 1
            fired = sum(1 for e in mids if closes.get(e["f"], 0) >= int(e["pos"][3:]))
            if fired < len(mids):
                return {"k": k, "scen": scen, "skip": "position not reached (the file is closed fewer times)"}
        for e in betw:
            subprocess.run(["sh", "-c", edit_cmd(e["kind"], os.path.join(g, e["f"]), size, work)], check=False)
        m = re.search(rb"# Timestamp: ([^\n]*)", report) or re.search(rb'"timestamp":"([^"]*)"', report)
        proj = lambda p: lib.printable(os.path.relpath(p, work))
        inv0 = lib.inventory(work, with_times=True)
        inv0 = {q: v for q, v in inv0.items() if q == "b" or q.startswith("b/") or q == "newer_target"}
        members = [os.path.join(g, n) for n in ("a", "b", "c")]
        reads0 = [{"f": proj(p), "v": c02.read_id(p)} for p in members]
        args = list(dd.OPS[scen["op"]]) + ([os.path.join(work, "MV")] if scen["op"] == "move" else [])
        # selection options of the dedupe command must not weaken the staleness check (a protected member may be the changed one)
        args += [[], [], ["--keep-name", "a"], ["--keep-path", os.path.join(g, "a")], ["--keep-name", "b"], ["--name", "[bc]"]][k % 6]
        d = lib.run_fclones(args, work, env, stdin=report)
        inv1 = lib.inventory(work, with_times=True)
        inv1 = {q: v for q, v in inv1.items() if q == "b" or q.startswith("b/") or q == "MV" or q.startswith("MV/") or q == "newer_target"}
        fake = type("T", (), {"work": work})
        run = {"id": k, "op": scen["op"], "pre": c02.entries(fake, inv0, proj), "post": c02.entries(fake, inv1, proj),
               "groups": [], "reads0": reads0, "reads1": [], "moved": [], "mvfiles": []}
        return {"k": k, "scen": scen, "run": run, "size": size, "fmt": fmt, "stderr": d.err.decode("utf-8", "replace")[-700:], "rc": d.rc,
                "panicked": d.panicked, "timestamp": m.group(1).decode() if m else "",
                "mtimes": {n: inv0.get("b/g/" + n, {}).get("mtime") for n in ("a", "b", "c")},
                "changed": sorted(set(x["p"] for x in run["pre"]) - set(x["p"] for x in run["post"]))}
    finally:
        lib.rmtree(work)


def main(tier):
    chk = lib.Check("C04", tier)
    thorough = tier == "thorough"
    chk.assumptions = ["every injected edit is >= 30 ms away from the run start, the report timestamp and the dedupe inspection (coarse file-system clock)",
                       "edits are ordinary writes (mtime = now); mtime-preserving replacements are outside the property",
                       "mid-run edits are placed by the shim after the k-th close of the member by `group` (positions from the run itself)"]
    for sp, expect in (("start", None),):
        cfg = os.path.join(lib.BUILD, f"MC_StaleReport_{sp}.cfg")
        with open(cfg, "w") as f:
            f.write(f'CONSTANTS\n  Files <- MCFiles\n  ReadsPerFile = {3 if thorough else 2}\n  MaxEdits = 2\n  StampPos = "{sp}"\nSPECIFICATION Spec\nINVARIANT NoChangedDataLost\nCHECK_DEADLOCK FALSE\n')
        res = lib.run_tlc("MC_StaleReport.tla", cfg, workers=8, timeout=1500)
        chk.add_tlc(f"MC_StaleReport[stamp at {sp}]", res)
        if res.violation:
            chk.violation(f"C04/model stamp={sp} {res.violation}", "the time-line model loses changed data", {"tlc": res.output[-3000:]})
    lib.build_all()
    out = os.path.join(lib.BUILD, "stale_scen.ndjson")
    res = lib.run_tlc("Scen_StaleReport.tla", "Scen_StaleReport.cfg", workers=1, timeout=300, env={"OUT": out}, coverage=False)
    scens = [json.loads(l) for l in open(out)]
    rng = random.Random(chk.seed)
    if not thorough:
        rng.shuffle(scens)
        scens = scens[:300]
    cases = []
    for k, s in enumerate(scens, 1):
        size = rng.choice([300, 70000]) if any(e["pos"] in ("mid2", "mid3") for e in s["edits"]) is False else 70000
        cases.append((k, s, size, rng.choice(["default", "json"])))
    results = lib.pmap(run_history, cases, workers=12)
    done = [r for r in results if "run" in r]
    verdicts, res = c02.tlc_eval([r["run"] for r in done])
    chk.add_tlc("Eval_DedupeObs(ContentKept on observed histories)", res)
    nontrivial = set()
    for r in done:
        v = verdicts[r["k"]]
        s = r["scen"]
        desc = "+".join(f"{e['kind']}@{e['pos']}:{'kept' if e['f'] == 'a' else 'dropped'}" for e in s["edits"])
        sig = f"op={s['op']} edits={desc}"
        nontrivial.add(sig)
        if r["panicked"]:
            chk.violation(f"C04/panic {sig}", "the dedupe command panicked: " + r["stderr"][-300:], r)
        if not v["ContentKept"]:
            cls = "mid-run-same-length" if any(e["pos"].startswith("mid") and e["kind"] in ("same-len", "recreate", "symlink-newer") for e in s["edits"]) else "other"
            chk.violation(f"C04/ContentKept class={cls} {sig}", "a dedupe command acting on the stale report destroyed content that is not retained anywhere "
                          f"(report timestamp {r['timestamp']}, member mtimes {r['mtimes']})", r)
    chk.cov["evaluations"] = len(done)
    chk.cov["traces_validated_against_impl"] = len(done)
    chk.cov["distinct_nontrivial"] = len(nontrivial)
    chk.cov["skipped"] = len(results) - len(done)
    chk.cov["rule"] = ("histories enumerated by TLC (Scen_StaleReport): (member kept/dropped) x 11 kinds of ordinary file operation x position (after the 1st/2nd/3rd close of "
                       "the member during `group`, or between the runs) x 5 operations, plus pairs; quick tier = seeded sample of 300; non-trivial = distinct history replayed")
    if done:
        chk.sample({"history": done[0]["scen"], "report_timestamp": done[0]["timestamp"], "removed_or_replaced": done[0]["changed"]})
    return chk.finish()


if __name__ == "__main__":
    try:
        sys.exit(main(sys.argv[1] if len(sys.argv) > 1 else "quick"))
    except lib.ToolError as e:
        print("TOOL-ERROR", e, file=sys.stderr)
        sys.exit(2)
