"""Engine for the `fclones group` checks (C01, C03, C06, C14, C13, C12): seeded trees around the stage thresholds,
an independent byte-for-byte oracle, real runs in many configurations, predicates of GroupObs.tla evaluated by TLC."""
import csv
import io
import json
import os
import random
import re
import stat
import subprocess

import dd
import lib

HASH_FNS = ["metro", "xxhash", "blake3", "sha256", "sha512", "sha3-256", "sha3-512"]
KB = 1024
# lengths straddling: empty/1, min prefix 4 KiB, max prefix 16 KiB, the 64 KiB read buffer and SSD suffix threshold, > 128 KiB
LENGTHS = [1, 2, 100, 4095, 4096, 4097, 8191, 16383, 16384, 16385, 20000, 65535, 65536, 65537, 70000, 131072, 131073, 140001]
ROOTS = ["R1", "R2", "O"]
TRANSFORMS = {
    "keep": ("vt_keep", lambda b: b),
    "shrink": ("vt_shrink", lambda b: b[:3000]),
    "expand": ("vt_expand", lambda b: b + b"<<TAIL>>" + b[:16]),
    "drop-head": ("vt_drophead", lambda b: b[5000:]),
}
SCRIPTS = {
    "vt_keep": "#!/bin/sh\nexec cat\n",
    "vt_shrink": "#!/bin/sh\nexec head -c 3000\n",
    "vt_expand": "#!/usr/bin/env python3\nimport sys\nb=sys.stdin.buffer.read()\nsys.stdout.buffer.write(b+b'<<TAIL>>'+b[:16])\n",
    "vt_drophead": "#!/bin/sh\nexec tail -c +5001\n",
}


def base_bytes(seed, n):
    rnd = random.Random(seed)
    return bytes(rnd.getrandbits(8) for _ in range(min(n, 4096))) * (n // 4096 + 1)


def flip(data, off):
    b = bytearray(data)
    b[off] ^= 0x5A
    return bytes(b)


def flip_offsets(n, rng):
    cand = {0, n - 1, n // 2, 4095, 4096, 16383, 16384, 65535, 65536, n - 4096, n - 4097, n - 16384, n - 16385, rng.randrange(n)}
    return sorted(o for o in cand if 0 <= o < n)


def gen_tree(rng, nclasses=None, small=False, hardlink_p=0.25, tiny=False):
    """Abstract tree: list of files {root, sub, name, data-key, ino-group, link?}. Content classes = a base and single-byte flips."""
    files = []
    nclasses = nclasses or rng.randint(2, 5)
    fid = 0
    for c in range(nclasses):
        n = rng.choice(LENGTHS[:4] if tiny else (LENGTHS[:11] if small else LENGTHS))
        # now and then the base bytes of the previous class at another length: equal heads (and equal outputs of
        # truncating transforms) across different file lengths
        seed = files[-1]["seed"] if files and rng.random() < 0.25 else rng.randint(0, 1 << 30)
        variants = [None] + rng.sample(flip_offsets(n, rng), k=min(len(flip_offsets(n, rng)), rng.randint(0, 3)))
        for v in variants:
            copies = rng.choice([1, 1, 2, 2, 3])
            first = None
            for k in range(copies):
                f = {"id": fid, "root": rng.choice(ROOTS), "sub": rng.choice(["", "s", "s/t"]), "name": "f%d" % fid, "seed": seed, "len": n, "flip": v,
                     "hardlink_of": None, "symlink_to": None}
                if first is not None and rng.random() < hardlink_p:
                    f["hardlink_of"] = first
                elif first is not None and rng.random() < 0.15:
                    f["symlink_to"] = first
                    f["relative"] = rng.random() < 0.5
                if first is None:
                    first = fid
                files.append(f)
                fid += 1
    return files


def linky_tree(rng, nclasses=8):
    """Classes of [file, hard link of it, independent copy (, hard link of the copy)] longer than any prefix length: the contents stage
    receives the paths of one identity interleaved with other identities when the pool has several threads."""
    files = []
    fid = 0
    for c in range(nclasses):
        n = rng.choice([16385, 20000, 65537, 70000])
        seed = rng.randint(0, 1 << 30)
        shape = rng.choice([[None, 0, None], [None, 0, None, 2], [None, None, 0, 1], [None, 0, 0, None]])
        ids = []
        for k, link in enumerate(shape):
            f = {"id": fid, "root": rng.choice(ROOTS), "sub": rng.choice(["", "s", "s/t"]), "name": "f%d" % fid, "seed": seed, "len": n, "flip": None,
                 "hardlink_of": None if link is None else ids[link], "symlink_to": None}
            ids.append(fid)
            files.append(f)
            fid += 1
    return files


def whole_window_tree(rng):
    """Pairs of copies of several different files of ONE length between the SSD suffix threshold (64 KiB) and 100 000 bytes: with
    --max-prefix-size / --max-suffix-size of 100 000 both windows are the whole file and the contents stage is skipped."""
    files = []
    fid = 0
    n = rng.choice([65536, 65537, 70000, 99999])
    seed = rng.randint(0, 1 << 30)
    for v in [None] + rng.sample(flip_offsets(n, rng), 2):
        for k in range(2):
            files.append({"id": fid, "root": rng.choice(ROOTS), "sub": rng.choice(["", "s"]), "name": "f%d" % fid, "seed": seed, "len": n, "flip": v,
                          "hardlink_of": None, "symlink_to": None})
            fid += 1
    for k in range(2):          # and an unrelated pair of the same length
        files.append({"id": fid, "root": rng.choice(ROOTS), "sub": "", "name": "f%d" % fid, "seed": seed + 1, "len": n, "flip": None, "hardlink_of": None, "symlink_to": None})
        fid += 1
    return files


class Tree:
    def __init__(self, files, seed, mounts=False):
        self.files = files
        self.mounted = []
        self.work = lib.mkscratch("gg")
        self.base = os.path.join(self.work, "b")
        self.bin = os.path.join(self.work, "bin")
        os.makedirs(self.bin)
        for n, txt in SCRIPTS.items():
            p = os.path.join(self.bin, n)
            with open(p, "w") as f:
                f.write(txt)
            os.chmod(p, 0o755)
        for r in ROOTS:
            os.makedirs(os.path.join(self.base, r))
            if mounts and r in ("R1", "R2"):
                # two fresh tmpfs file systems: different devices whose inode numbers coincide
                m = subprocess.run(["mount", "-t", "tmpfs", "-o", "size=8m", "tmpfs", os.path.join(self.base, r)], capture_output=True)
                if m.returncode == 0:
                    self.mounted.append(os.path.join(self.base, r))
            os.makedirs(os.path.join(self.base, r, "s", "t"))
        if mounts:
            # hard links cannot cross the mounts: demote them to copies
            byid = {f["id"]: f for f in files}
            for f in files:
                if f["hardlink_of"] is not None and byid[f["hardlink_of"]]["root"] != f["root"]:
                    f["hardlink_of"] = None
        self.path = {}
        self.data = {}
        for f in files:
            p = os.path.join(self.base, f["root"], f["sub"], f["name"])
            self.path[f["id"]] = p
            if f["hardlink_of"] is not None:
                os.link(self.path[f["hardlink_of"]], p)
            elif f["symlink_to"] is not None:
                t = self.path[f["symlink_to"]]
                os.symlink(os.path.relpath(t, os.path.dirname(p)) if f.get("relative") else t, p)
            else:
                d = base_bytes(f["seed"], f["len"])[:f["len"]]
                if f["flip"] is not None:
                    d = flip(d, f["flip"])
                lib.write_file(p, d)

    def env(self, disk_kind=None, trace=None):
        e = lib.base_env(self.work, disk_kind=disk_kind, trace=trace)
        e["PATH"] = self.bin + ":" + e["PATH"]
        return e

    def cleanup(self):
        for m in self.mounted:
            subprocess.run(["umount", "-l", m], capture_output=True)
        lib.rmtree(self.work)


def oracle(tree, cfg):
    """Independent description of the scanned files: class of (length, bytes) by direct comparison of the bytes (no hashing),
    identity, root. cfg: symlinks (-S), transform name or None, min size 1."""
    recs = []
    classes = {}
    tf = TRANSFORMS[cfg["transform"]][1] if cfg.get("transform") else None
    for f in tree.files:
        p = tree.path[f["id"]]
        islink = os.path.islink(p)
        if islink and not cfg.get("symlinks"):
            continue
        st = os.stat(p)
        if not stat.S_ISREG(st.st_mode):
            continue
        if st.st_size < cfg.get("min_size", 1) or st.st_size > cfg.get("max_size", 1 << 62):      # --min / --max: both inclusive, on the raw length
            continue
        with open(p, "rb") as fh:
            data = fh.read()
        if tf:
            data = tf(data)
        key = data                      # dict lookup on the bytes themselves: exact comparison
        cls = classes.setdefault(key, len(classes) + 1)
        recs.append({"p": lib.printable(os.path.relpath(p, tree.base)), "cls": cls, "len": len(data), "ino": f"{st.st_dev}:{st.st_ino}",
                     "root": ROOTS.index(f["root"]) + 1})
    return recs


def group_args(cfg, fmt="json"):
    a = ["group"] + list(cfg.get("roots", ROOTS)) + ["-f", fmt]
    if cfg.get("symlinks"):
        a.append("-S")
    if cfg.get("isolate"):
        a.append("--isolate")
    if cfg.get("matchLinks"):
        a.append("-H")
    if cfg.get("unique"):
        a.append("--unique")
    elif cfg.get("rf_under") is not None:
        a += ["--rf-under", str(cfg["rf_under"])]
    elif cfg.get("rf_over") is not None:
        a += ["--rf-over", str(cfg["rf_over"])]
    if cfg.get("hash_fn"):
        a += ["--hash-fn", cfg["hash_fn"]]
    if cfg.get("cache"):
        a.append("--cache")
    if cfg.get("max_prefix") is not None:
        a += ["--max-prefix-size", str(cfg["max_prefix"])]
    if cfg.get("max_suffix") is not None:
        a += ["--max-suffix-size", str(cfg["max_suffix"])]
    if cfg.get("transform"):
        a += ["--transform", TRANSFORMS[cfg["transform"]][0]]
    if cfg.get("skip_content"):
        a.append("--skip-content-hash")
    if cfg.get("min_size") is not None:
        a += ["--min", str(cfg["min_size"])]
    if cfg.get("max_size") is not None:
        a += ["--max", str(cfg["max_size"])]
    for t in cfg.get("threads", []):
        a += ["--threads", t]
    return a


def eff_filter(cfg):
    if cfg.get("unique"):
        return "under", 2
    if cfg.get("rf_under") is not None:
        return "under", cfg["rf_under"]
    return "over", (1 if cfg.get("rf_over") is None else cfg["rf_over"])


def decode_path(p):
    """A path field of the csv / fdupes formats back to the file name; a field that is not valid STFU-8 names no file (kept, marked)."""
    try:
        return os.fsdecode(dd.stfu8_decode(p))
    except ValueError:
        return "<not STFU-8>" + p


def parse_text_report(out):
    """Independent parser of the default text format: header dict + groups."""
    hdr = {}
    groups = []
    for line in out.decode("utf-8", "surrogateescape").split("\n"):
        if line.startswith("# "):
            m = re.match(r"# Total: (\d+) B \(.*\) in (\d+) files in (\d+) groups", line)
            if m:
                hdr.update(bytes=int(m.group(1)), files=int(m.group(2)), groups=int(m.group(3)))
            m = re.match(r"# Redundant: (\d+) B \(.*\) in (\d+) files", line)
            if m:
                hdr.update(redundantBytes=int(m.group(1)), redundantFiles=int(m.group(2)))
            m = re.match(r"# Missing: (\d+) B \(.*\) in (\d+) files", line)
            if m:
                hdr.update(missingBytes=int(m.group(1)), missingFiles=int(m.group(2)))
            continue
        m = re.match(r"^([0-9a-f]+), (\d+) B \(.*\) \* (\d+):$", line)
        if m:
            groups.append({"hash": m.group(1), "len": int(m.group(2)), "count": int(m.group(3)), "paths": []})
        elif line.startswith("    ") and groups:
            groups[-1]["paths"].append(os.fsdecode(dd.stfu8_decode(line[4:].rstrip("\r"))))
    return hdr, groups


def parse_json(out):
    rep = json.loads(out.decode("utf-8"))
    st = rep["header"].get("stats") or {}
    hdr = dict(groups=st.get("group_count"), files=st.get("total_file_count"), bytes=st.get("total_file_size"),
               redundantFiles=st.get("redundant_file_count"), redundantBytes=st.get("redundant_file_size"),
               missingFiles=st.get("missing_file_count"), missingBytes=st.get("missing_file_size"))
    groups = [{"hash": g["file_hash"], "len": g["file_len"], "count": len(g["files"]),
               "paths": [os.fsdecode(dd.stfu8_decode(p)) for p in g["files"]]} for g in rep["groups"]]
    return hdr, groups, rep["header"]


def parse_csv(out):
    groups = []
    rd = csv.reader(io.StringIO(out.decode("utf-8", "surrogateescape")))
    rows = list(rd)
    for row in rows[1:]:
        if len(row) >= 4:
            groups.append({"len": int(row[0]), "hash": row[1], "count": int(row[2]), "paths": [decode_path(p) for p in row[3:]]})
    return groups


def parse_fdupes(out):
    groups = [[]]
    for line in out.decode("utf-8", "surrogateescape").split("\n"):
        if line == "":
            if groups[-1]:
                groups.append([])
        else:
            groups[-1].append(decode_path(line))
    return [g for g in groups if g]


def observed_run(rid, tree, cfg, recs, hdr, groups):
    kind, rf = eff_filter(cfg)
    rel = lambda p: lib.printable(os.path.relpath(p, tree.base))
    return {"id": rid, "files": recs, "cfg": {"kind": kind, "rf": rf, "isolate": bool(cfg.get("isolate")), "matchLinks": bool(cfg.get("matchLinks"))},
            "groups": [{"len": g["len"], "paths": [rel(p) for p in g["paths"]]} for g in groups],
            "stats": {k: (hdr.get(k) if hdr.get(k) is not None else -1) for k in
                      ("groups", "files", "bytes", "redundantFiles", "redundantBytes", "missingFiles", "missingBytes")}}


def tlc_eval(runs):
    d = lib.mkscratch("evg", base=lib.BUILD)
    try:
        cf, of = os.path.join(d, "cases.ndjson"), os.path.join(d, "out.ndjson")
        with open(cf, "w") as f:
            for r in runs:
                f.write(json.dumps(r) + "\n")
        res = lib.run_tlc("Eval_GroupObs.tla", "Eval_GroupObs.cfg", workers=1, timeout=3000, env={"CASES": cf, "OUT": of}, coverage=False, xss="512m")
        if not res.ok:
            raise lib.ToolError("Eval_GroupObs failed: " + res.output[-2500:])
        out = {}
        with open(of) as f:
            for line in f:
                v = json.loads(line)
                out[v["id"]] = v
        return out, res
    finally:
        lib.rmtree(d)


def gen_cfg(rng, allow_transform=True):
    cfg = {"symlinks": rng.random() < 0.3, "isolate": rng.random() < 0.25, "matchLinks": False,
           "hash_fn": rng.choice(HASH_FNS + ["metro"] * 4), "cache": rng.random() < 0.2,
           "disk_kind": rng.choice(["ssd", "ssd", "hdd", "unknown", None]), "threads": rng.choice([[], [], ["1"], ["main:2"], ["default:1,1"], ["16"], ["ssd:2,1"], ["0"]])}
    if not cfg["symlinks"]:
        cfg["matchLinks"] = rng.random() < 0.2
    r = rng.random()
    if r < 0.15:
        cfg["unique"] = True
    elif r < 0.3:
        cfg["rf_under"] = rng.choice([1, 2, 3])
    elif r < 0.6:
        cfg["rf_over"] = rng.choice([0, 1, 2, 3])
    if rng.random() < 0.3:
        cfg["max_prefix"] = rng.choice([1, 512, 4096, 8192, 16384, 100000])
    if rng.random() < 0.3:
        cfg["max_suffix"] = rng.choice([1, 512, 4096, 16384, 65536, 100000])
    if allow_transform and rng.random() < 0.15:
        cfg["transform"] = rng.choice(list(TRANSFORMS))
    return cfg
