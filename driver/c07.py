"""C07: `group` and `--dry-run` never modify the scanned tree."""
import json
import os
import random
import sys

import dd
import gg
import lib

MUT = ("rename", "link", "symlink", "unlink", "mkdir", "rmdir", "openw", "write", "clone", "utimes", "chmod", "chown", "copy", "truncate", "mkfifo")
SCRIPTS = {
    "vt_cat": '#!/bin/sh\nexec cat\n',
    "vt_ignore": '#!/bin/sh\nexec true\n',
    "vt_fail": '#!/bin/sh\ncat >/dev/null\nexit 3\n',
    "vt_in": '#!/bin/sh\nexec cat "$1"\n',
    "vt_inout": '#!/bin/sh\nexec cp "$1" "$2"\n',
    "vt_inplace": '#!/bin/sh\nprintf "appended" >> "$1"\n',
    "vt_innoop": '#!/bin/sh\ncat "$1" > /dev/null\n',
    "vt_failin": '#!/bin/sh\nexit 4\n',
    "vt_sidecar": '#!/bin/sh\ncp "$1" "$1.bak"\nmkdir -p "$(dirname "$1")/work.d"\ncp "$1" "$(dirname "$1")/work.d/copy"\nexec cat "$1"\n',     # leaves files next to its input
    # (the same, silent: with --in-place nobody reads the program's standard output, and a program that writes more than a pipe holds
    # blocks for ever - observed on the unchanged code, not a matter of this property)
    "vt_sidecar_q": '#!/bin/sh\ncp "$1" "$1.bak"\nmkdir -p "$(dirname "$1")/work.d"\ncp "$1" "$(dirname "$1")/work.d/copy"\nprintf x >> "$1"\n',
}
# (transform command, extra flags, the program itself writes to $IN under --no-copy => excepted)
MODES = [(None, [], False), ("vt_cat", [], False), ("vt_ignore", [], False), ("vt_fail", [], False), ("vt_in $IN", [], False), ("vt_in $IN", ["--no-copy"], False),
         ("vt_inout $IN $OUT", [], False), ("vt_inout $IN $OUT", ["--no-copy"], False), ("vt_inplace $IN", ["--in-place"], False),
         ("vt_innoop $IN", ["--in-place"], False), ("vt_innoop $IN", ["--in-place", "--no-copy"], False), ("vt_failin $IN", ["--in-place"], False),
         ("vt_failin $IN", ["--no-copy"], False), ("vt_inplace $IN", ["--in-place", "--no-copy"], True),
         ("vt_sidecar $IN", [], False), ("vt_sidecar_q $IN", ["--in-place"], False),
         ("vt_no_such_program", [], False), ("vt_no_such_program $IN", ["--in-place"], False)]        # cannot be launched: fail fast, leave nothing behind


def build(work, seed):
    rng = random.Random(seed)
    base = os.path.join(work, "b")
    data = [gg.base_bytes(seed + i, n)[:n] for i, n in enumerate((300, 5000, 70000))]
    k = 0
    for d in ("x", "x/y", "z"):
        for c in data:
            if rng.random() < 0.8 or (d == "x" and c is data[0]):          # x always holds a file (the target of the links below)
                lib.write_file(os.path.join(base, d, "f%d" % k), c, lib.OLD_MTIME + k)
                k += 1
    lib.write_file(os.path.join(base, "z", "only"), b"unique data", lib.OLD_MTIME)
    first = os.path.join(base, "x", [n for n in sorted(os.listdir(os.path.join(base, "x"))) if n.startswith("f")][0])
    os.link(first, os.path.join(base, "z", "hard"))
    os.symlink(os.path.relpath(first, os.path.join(base, "z")), os.path.join(base, "z", "sym"))
    for root, dirs, files in os.walk(base):
        os.utime(root, (lib.OLD_MTIME, lib.OLD_MTIME))
    os.utime(os.path.join(base, "z", "sym"), (lib.OLD_MTIME, lib.OLD_MTIME), follow_symlinks=False)
    return base


def snapshot(base):
    inv = lib.inventory(base, with_times=True)
    return {k: {kk: vv for kk, vv in v.items()} for k, v in inv.items()}


def one(t):
    k, kind, spec, seed = t
    outer = lib.mkscratch("c07")
    work = os.path.join(outer, "w")          # `-o ../FILE` of some cases lands in `outer`, which is removed with the rest
    os.makedirs(work)
    try:
        base = build(work, seed)
        bind = os.path.join(work, "bin")
        os.makedirs(bind)
        for n, txt in SCRIPTS.items():
            with open(os.path.join(bind, n), "w") as f:
                f.write(txt)
            os.chmod(os.path.join(bind, n), 0o755)
        env = lib.base_env(work)
        env["PATH"] = bind + ":" + env["PATH"]
        logf = os.path.join(work, "shim.log")
        senv = lib.shim_env(env, log_path=logf, root=base)
        before = snapshot(base)
        res = {"k": k, "kind": kind, "spec": spec}
        if kind == "group":
            cmd, flags, excepted = spec["mode"]
            args = ["group", "." if "xdg" in spec else "b"] + spec["opts"] + flags
            if cmd:
                args += ["--transform", cmd]
            if "xdg" in spec:
                # the cache location variable is set but unusable (empty or relative): the cache must not land in the working directory,
                # which here is the scanned tree itself
                senv["XDG_CACHE_HOME"] = spec["xdg"]
            r = lib.run_fclones(args, base if "xdg" in spec else work, senv, timeout=120)
            res["excepted"] = excepted
        else:
            g = lib.run_fclones(["group", "b"] + spec["gopts"], work, env, timeout=120)
            before = snapshot(base)
            mvdir = os.path.join(base, "x", "moved-here") if spec.get("tinside") else os.path.join(work, "MV")      # tinside: a new directory INSIDE the scanned tree
            args = list(dd.OPS[spec["op"]]) + ([mvdir] if spec["op"] == "move" else []) + ["--dry-run"] + spec["opts"]
            r = lib.run_fclones(args, work, senv, stdin=g.out, timeout=120)
            res["excepted"] = False
        after = snapshot(base)
        res["args"] = args
        res["rc"] = r.rc
        res["panicked"] = r.panicked
        res["stderr"] = r.err.decode("utf-8", "replace")[-500:]
        res["changed"] = sorted(p for p in set(before) | set(after) if before.get(p) != after.get(p))
        log = lib.read_shim_log(logf)
        res["mutating_calls"] = [(e["call"], os.path.relpath(e["p1"], base)) for e in log
                                 if e["call"] in MUT and e.get("p1", "").startswith(base + "/") and e["ret"] >= 0][:10]
        res["temps_left"] = sorted(os.listdir(os.path.join(work, "_tmp")))
        res["calls_seen"] = len(log)
        return res
    finally:
        lib.rmtree(outer)


def main(tier):
    chk = lib.Check("C07", tier)
    thorough = tier == "thorough"
    chk.assumptions = ["the LD_PRELOAD shim is inherited by the transform programs, so their calls on the tree are seen as well",
                       "TMPDIR / HOME / XDG_CACHE_HOME are private scratch directories outside the scanned tree",
                       "`-o FILE` is given a path outside the tree"]
    for fixed in ("TRUE",):
        cfg = os.path.join(lib.BUILD, f"Transform_{fixed}.cfg")
        with open(cfg, "w") as f:
            f.write(f"CONSTANT FixedInPlaceDrop = {fixed}\nSPECIFICATION Spec\nINVARIANTS Unmodified TempsGone\nCHECK_DEADLOCK FALSE\n")
        res = lib.run_tlc("Transform.tla", cfg, workers=2, timeout=300)
        chk.add_tlc(f"Transform[FixedInPlaceDrop={fixed}]", res)
        if res.violation:
            chk.violation(f"C07/model {res.violation}", "the handle life-cycle model violates " + res.violation, {"tlc": res.output[-2000:]})
    lib.build_all()
    rng = random.Random(chk.seed + 7)
    cases = []
    k = 0
    group_opts = [[], ["--cache"], ["-o", "../report_out.txt"], ["-S"], ["--rf-over", "0"], ["--cache", "--hash-fn", "blake3"], ["-f", "json"], ["--threads", "1"]]
    for mode in MODES:
        for opts in (group_opts if thorough else rng.sample(group_opts, 3)):
            k += 1
            cases.append((k, "group", {"mode": mode, "opts": opts}, rng.randint(0, 1 << 20)))
    for xdg in ("", "relcache", "./c"):
        k += 1
        cases.append((k, "group", {"mode": MODES[0], "opts": ["--cache"], "xdg": xdg}, rng.randint(0, 1 << 20)))
    for op in dd.OPS:
        for gopts, opts in [([], []), (["-S"], ["--priority", "newest"]), (["--isolate", "b/x", "b/z"], ["-n", "1"]), ([], ["--name", "f*"]), ([], ["-o", "../script.sh"]),
                            (["-H"], ["--keep-path", "**/x/**"])]:
            if gopts[:1] == ["--isolate"]:
                gopts = ["--isolate"]
            k += 1
            cases.append((k, "dry-run", {"op": op, "gopts": gopts, "opts": opts}, rng.randint(0, 1 << 20)))
    for opts in ([], ["-o", "../script.sh"], ["--name", "f*"]):
        k += 1
        cases.append((k, "dry-run", {"op": "move", "gopts": [], "opts": opts, "tinside": True}, rng.randint(0, 1 << 20)))
    results = lib.pmap(one, cases, workers=12)
    nontrivial = 0
    for r in results:
        desc = (f"group mode={r['spec']['mode'][0]} {' '.join(r['spec']['mode'][1])} opts={' '.join(r['spec']['opts'])}" + (f" XDG_CACHE_HOME={r['spec']['xdg']!r} cwd=tree" if "xdg" in r["spec"] else "") if r["kind"] == "group"
                else f"dry-run op={r['spec']['op']} gopts={' '.join(r['spec']['gopts'])} opts={' '.join(r['spec']['opts'])}")
        if r["calls_seen"] > 0:
            nontrivial += 1
        if r["panicked"]:
            chk.violation(f"C07/panic {desc}", "panicked: " + r["stderr"][-200:], r)
        if r["excepted"]:
            continue
        if r["changed"]:
            chk.violation(f"C07/tree-changed {desc}", f"the scanned tree changed: {r['changed'][:6]}", r)
        if r["mutating_calls"]:
            chk.violation(f"C07/mutating-call-in-tree {desc}", f"mutating calls on paths of the tree: {r['mutating_calls'][:5]}", r)
        if r["temps_left"]:
            chk.violation(f"C07/temps-left {desc}", f"temporary files left behind: {r['temps_left'][:5]}", r)
    chk.cov["evaluations"] = len(results)
    chk.cov["traces_validated_against_impl"] = len(results)
    chk.cov["distinct_nontrivial"] = nontrivial
    chk.cov["rule"] = ("every transform I/O mode (stdin/stdout, $IN with and without --no-copy, $OUT, --in-place, programs that read / ignore / fail / write $IN) x group options (cache, -o, -S, "
                       "json, threads), and every dedupe operation with --dry-run x option sets; each run under the shim with inventories (bytes, link structure, mtimes of files and "
                       "directories) before / after, the temp and cache directories inspected; non-trivial = run in which the shim saw calls on the tree")
    chk.sample({k: v for k, v in results[0].items() if k != "stderr"})
    return chk.finish()


if __name__ == "__main__":
    try:
        sys.exit(main(sys.argv[1] if len(sys.argv) > 1 else "quick"))
    except lib.ToolError as e:
        print("TOOL-ERROR", e, file=sys.stderr)
        sys.exit(2)
