"""C16: globs match as documented and directory pruning is conservative."""
import json
import os
import re
import subprocess
import sys

import lib

ESC = set("\\*?[]{}()|,!@")


def render(tokens):
    """Token list (as emitted by MC_Glob) -> glob text."""
    out = ""
    for t in tokens:
        k = t["t"]
        if k == "lit":
            c = t["c"]
            if t.get("e"):
                out += "\\" + c
            elif c == "(":
                out += "\\(" if out[-1:] in ("?", "*", "+", "@", "!") else "("
            elif c in ESC:
                out += "\\" + c
            else:
                out += c
        elif k == "any1":
            out += "?"
        elif k == "star":
            # a literal star followed by another star would read as `**`: the enumeration keeps them apart through rendering
            out += "*"
        elif k == "dstar":
            out += "**"
        elif k == "class":
            out += "[" + ("!" if t["neg"] else "") + "".join(sorted(t["s"])) + "]"
        elif k == "alt":
            out += "{" + ",".join(render(a) for a in t["alts"]) + "}"
        elif k == "ext":
            out += t["k"] + "(" + "|".join(render(a) for a in t["alts"]) + ")"
    return out


def ambiguous(tokens):
    """Token sequences whose rendering reads as other tokens (`*` next to `*`/`**`, `?`/`*`/`+` before `(`): skipped."""
    for a, b in zip(tokens, tokens[1:]):
        if a["t"] in ("star", "dstar") and b["t"] in ("star", "dstar"):
            return True
        if a["t"] in ("star", "dstar") and b["t"] == "ext" and b["k"] == "*":
            return True
        if b["t"] == "lit" and b["c"] == "(" and (a["t"] in ("any1", "star", "dstar") or (a["t"] == "lit" and a["c"] in "+@!")):
            return True
    return False


def enumerate_vectors(chk, name, max_tokens, max_len, with_ci, workers=12, timeout=3000):
    cfg = os.path.join(lib.BUILD, f"MC_Glob_{name}.cfg")
    with open(cfg, "w") as f:
        f.write(f"CONSTANTS\n  MaxTokens = {max_tokens}\n  MaxLen = {max_len}\n  WithCI = {'TRUE' if with_ci else 'FALSE'}\nSPECIFICATION Spec\nINVARIANT Emit\nCHECK_DEADLOCK FALSE\n")
    res = lib.run_tlc("MC_Glob.tla", cfg, workers=workers, timeout=timeout, coverage=False, xmx="16g")
    chk.add_tlc(f"MC_Glob[{name}]", res)
    vecs = []
    for m in re.finditer(r'^<<"VEC", (".*")>>$', res.output, re.M):
        v = json.loads(json.loads(m.group(1)).replace("%", "\u017c"))       # "%" is the specification's stand-in for a non-ASCII letter
        v["matching"] = sorted("".join(s) for s in v["matching"])
        v["ancestors"] = sorted(a for a in ("".join(s) for s in v["ancestors"]) if not a.endswith("/"))      # no empty path components
        vecs.append(v)
    return vecs


def main(tier):
    chk = lib.Check("C16", tier)
    thorough = tier == "thorough"
    chk.assumptions = ["README semantics read literally: `?`/`*` exclude the separator, `**` is any run of characters, a bracket class is tested only against the characters it lists "
                       "(so `[!a]` matches `/`), matching is of the whole string", "`!(..)` is not part of the property; newline is outside the alphabet"]
    max_len = 4
    vecs = enumerate_vectors(chk, "t3", 3, max_len, thorough)
    if not thorough:
        vecs += [v for v in enumerate_vectors(chk, "t2ci", 2, max_len, True) if v["ci"]]
    vecs = [v for v in vecs if not ambiguous(v["glob"])]
    lib.build_all()
    work = lib.mkscratch("c16")
    try:
        vin, vout = os.path.join(work, "in.ndjson"), os.path.join(work, "out.ndjson")
        with open(vin, "w") as f:
            for i, v in enumerate(vecs):
                v["text"] = render(v["glob"])
                f.write(json.dumps({"id": i, "glob": v["text"], "ci": v["ci"]}) + "\n")
        r = subprocess.run([lib.HARNESS, "glob", vin, vout, str(max_len)], capture_output=True, text=True, timeout=3000)
        if r.returncode != 0:
            raise lib.ToolError("harness glob failed: " + r.stderr[-1500:])
        pairs = 0
        nontrivial = 0
        with open(vout) as f:
            for line in f:
                o = json.loads(line)
                v = vecs[o["id"]]
                sig = f"glob={v['text']!r} ci={v['ci']}"
                if "err" in o:
                    chk.violation(f"C16/rejected {sig}", "the glob was rejected: " + o["err"], {"vector": v, "impl": o})
                    continue
                pairs += 1555
                if v["matching"]:
                    nontrivial += 1
                got = sorted(o["matching"])
                if got != v["matching"]:
                    extra = [s for s in got if s not in set(v["matching"])][:5]
                    missing = [s for s in v["matching"] if s not in set(got)][:5]
                    cls = "ignore-case" if v["ci"] else "match"
                    chk.violation(f"C16/{cls} {sig}", f"implementation matches {extra} in addition and misses {missing} (reference: Glob.tla)", {"vector": {k: v[k] for k in ("text", "ci")}, "extra": extra, "missing": missing})
                partial = set(o["partial"])
                lost = [d for d in v["ancestors"] if d not in partial]
                if lost:
                    cls = "non-ascii" if all("ż" in d for d in lost) else ("escaped-literal-before-wildcard" if re.search(r"[.\-+(]", v["text"]) else "other")
                    chk.violation(f"C16/pruning-not-conservative class={cls} {sig}", f"matches_partially rejects the directories {lost[:5]} although they are ancestors of matching paths",
                                  {"vector": {k: v[k] for k in ("text", "ci")}, "lost": lost[:10]})
                # exclude rule of the selector: a directory is skipped when the pattern matches a prefix of `dir/`;
                # that is only sound if everything below the directory matches the pattern
                mset = set(v["matching"])
                for d in o["prefix"]:
                    below = [s for s in UNIVERSE if s.startswith(d + "/") and len(s) > len(d) + 1]
                    notex = [s for s in below if s not in mset]
                    if notex:
                        chk.violation(f"C16/exclude-prunes-unmatched class=prefix-match {sig}", f"as an --exclude pattern it prunes directory {d!r} although {notex[:3]} below it do not match",
                                      {"vector": {k: v[k] for k in ("text", "ci")}, "dir": d, "not_excluded": notex[:5]})
                        break
        # the selector with several --path patterns: a directory must be entered if it is an ancestor of a path matching ANY of them
        import random
        rng = random.Random(chk.seed)
        cands = [v for v in vecs if not v["ci"] and v["ancestors"] and len(v["glob"]) <= 3]
        sel_in, sel_out = os.path.join(work, "sel_in.ndjson"), os.path.join(work, "sel_out.ndjson")
        sel = []
        with open(sel_in, "w") as f:
            for i in range(3000 if thorough else 600):
                a, b = rng.choice(cands), rng.choice(cands)
                sel.append((a, b))
                f.write(json.dumps({"id": i, "globs": ["/" + a["text"], "/" + b["text"]]}) + "\n")
        r = subprocess.run([lib.HARNESS, "selector", sel_in, sel_out, "3"], capture_output=True, text=True, timeout=3000)
        if r.returncode != 0:
            raise lib.ToolError("harness selector failed: " + r.stderr[-1500:])
        with open(sel_out) as f:
            for line in f:
                o = json.loads(line)
                a, b = sel[o["id"]]
                okp = lambda q: "//" not in q and not q.endswith("/") and not any(c in (".", "..") for c in q.split("/"))   # paths that survive Path normalisation
                o["matching"] = [q for q in o["matching"] if okp(q)]
                o["dirs"] = [q for q in o["dirs"] if okp(q)]
                exp_match = sorted({"/" + s for v in (a, b) for s in v["matching"] if 0 < len(s) <= 3 and okp("/" + s)})
                exp_dirs = {"/" + d for v in (a, b) for s in v["matching"] if 0 < len(s) <= 3 and okp("/" + s)
                            for d in [s[:i] for i in range(1, len(s)) if s[i] == "/"] if okp("/" + d)}
                sig = f"globs={a['text']!r}+{b['text']!r}"
                if sorted(o["matching"]) != exp_match:
                    chk.violation(f"C16/selector-match {sig}", f"PathSelector with two --path patterns selects {sorted(set(o['matching']) ^ set(exp_match))[:6]} differently from the union of the patterns", {"globs": [a["text"], b["text"]]})
                lost = sorted(d for d in exp_dirs if d not in set(o["dirs"]) and "ż" not in d)
                if lost:
                    chk.violation(f"C16/selector-pruning-not-conservative {sig}", f"matches_dir rejects {lost[:5]} although they are ancestors of paths matching one of the patterns", {"globs": [a["text"], b["text"]], "lost": lost[:10]})
        # `^` and `$` are ordinary characters of a glob (and of a file name): end to end through `group --name`
        import c09
        adir = os.path.join(work, "anch", "t")
        names = ["x$", "x", "x$y", "^x", "$", "x^", "$x", "^"]
        for n_ in names:
            lib.write_file(os.path.join(adir, n_), b"same")
        anch = 0
        for g in ["x$", "*$", "?$", "^x", "x$y", "x\\$", "^*", "$", "$*", "x^", "^", "*^", "?", "x$$"]:
            r = lib.run_fclones(["group", "t", "--name", g, "--rf-over", "0", "-f", "fdupes"], os.path.dirname(adir), lib.base_env(work), timeout=60)
            ref = c09.glob_re(g.replace("\\", ""))
            exp = sorted(n_ for n_ in names if ref.match(n_))
            got = sorted(os.path.basename(l) for l in r.out.decode("utf-8", "replace").splitlines() if l.strip()) if r.rc == 0 else None
            anch += 1
            if got != exp:
                chk.violation(f"C16/anchor-char-literal glob={g!r}", f"`group --name {g}` selects {got} (exit {r.rc}{', panic' if r.panicked else ''}), the glob matches exactly {exp}",
                              {"glob": g, "got": got, "expected": exp, "stderr": r.err.decode("utf-8", "replace")[-400:]})
        # an escaped backslash is a literal backslash, also inside the literal prefix that decides which directories are entered
        bdir = os.path.join(work, "anch", "t2")
        for rel in ("b\\1/f", "b1/f", "b\\x/f", "c\\/f"):
            lib.write_file(os.path.join(bdir, rel), b"same2")
        for g, exp in (("t2/b\\\\1/**", ["b\\1/f"]), ("t2/b\\\\*/**", ["b\\1/f", "b\\x/f"]), ("t2/b\\\\[0-9]/*", ["b\\1/f"]), ("t2/*\\\\1/f", ["b\\1/f"]),
                       ("t2/c\\\\/**", ["c\\/f"]), ("t2/b1/**", ["b1/f"]), ("t2/b\\\\x/f", ["b\\x/f"])):
            r = lib.run_fclones(["group", "t2", "--path", g, "--rf-over", "0", "-f", "fdupes"], os.path.dirname(bdir), lib.base_env(work), timeout=60)
            import dd
            got = sorted(os.path.relpath(os.fsdecode(dd.stfu8_decode(l)), bdir) for l in r.out.decode("utf-8", "replace").splitlines() if l.strip()) if r.rc == 0 else None
            anch += 1
            if got != sorted(exp):
                chk.violation(f"C16/escaped-backslash glob={g!r}", f"`group --path {g}` selects {got} (exit {r.rc}), the glob matches exactly {sorted(exp)}",
                              {"glob": g, "got": got, "expected": exp, "stderr": r.err.decode("utf-8", "replace")[-400:]})
        # the delimiter of the OTHER group kind is an ordinary character inside a group: a comma inside @(..), a bar or parentheses inside {..}
        gdir = os.path.join(work, "anch", "t3")
        gnames = ["a,b.txt", "c.txt", "a.txt", "v1,0.log", "x(1).dat", "y.dat", "p|q.bin", "r.bin", "p.bin"]
        for n_ in gnames:
            lib.write_file(os.path.join(gdir, n_), b"same3")
        for g, exp in (("@(a,b|c).txt", ["a,b.txt", "c.txt"]), ("+(v1,0).log", ["v1,0.log"]), ("{x(1),y}.dat", ["x(1).dat", "y.dat"]), ("{p|q,r}.bin", ["p|q.bin", "r.bin"]),
                       ("{a,c}.txt", ["a.txt", "c.txt"])):
            r = lib.run_fclones(["group", "t3", "--name", g, "--rf-over", "0", "-f", "fdupes"], os.path.dirname(gdir), lib.base_env(work), timeout=60)
            import dd
            got = sorted(os.path.basename(os.fsdecode(dd.stfu8_decode(l))) for l in r.out.decode("utf-8", "replace").splitlines() if l.strip()) if r.rc == 0 else None
            anch += 1
            if got != sorted(exp):
                chk.violation(f"C16/delimiter-of-other-group-kind glob={g!r}", f"`group --name {g}` selects {got} (exit {r.rc}), the glob matches exactly {sorted(exp)}",
                              {"glob": g, "got": got, "expected": exp, "stderr": r.err.decode("utf-8", "replace")[-400:]})
        # letter case is folded by --ignore-case only - also in a RELATIVE --path / --exclude pattern, which the selector joins to the working directory
        cdir = os.path.join(work, "anch", "t4")
        cnames = ["sub/a.txt", "sub/A.txt", "sub/a.TXT", "SUB/a.txt", "Sub/b.txt", "readme.md", "README.md"]
        for n_ in cnames:
            lib.write_file(os.path.join(cdir, n_), b"same4")
        for opts, exp in ((["--path", "t4/sub/*.txt"], ["sub/A.txt", "sub/a.txt"]), (["--path", "t4/[a-z]*/[a-z].txt"], ["sub/a.txt"]),
                          (["--path", "t4/readme.*"], ["readme.md"]), (["--exclude", "t4/sub/a.*"], ["SUB/a.txt", "Sub/b.txt", "sub/A.txt", "readme.md", "README.md"]),
                          (["--path", "t4/sub/*.txt", "-i"], ["sub/A.txt", "sub/a.txt", "sub/a.TXT", "SUB/a.txt", "Sub/b.txt"]), (["--path", "T4/sub/*"], []),
                          (["--exclude", "t4/SUB/**"], ["sub/a.txt", "sub/A.txt", "sub/a.TXT", "Sub/b.txt", "readme.md", "README.md"]),
                          (["--path", "t4/**/a.txt"], ["sub/a.txt", "SUB/a.txt"]), (["--name", "README.*"], ["README.md"])):
            r = lib.run_fclones(["group", "t4", "--rf-over", "0", "-f", "fdupes"] + opts, os.path.dirname(cdir), lib.base_env(work), timeout=60)
            import dd
            got = sorted(os.path.relpath(os.fsdecode(dd.stfu8_decode(l)), cdir) for l in r.out.decode("utf-8", "replace").splitlines() if l.strip()) if r.rc == 0 else None
            anch += 1
            if got != sorted(exp):
                chk.violation(f"C16/case-folded-without-ignore-case opts={' '.join(opts)!r}", f"`group t4 {' '.join(opts)}` selects {got} (exit {r.rc}), the options describe exactly {sorted(exp)}",
                              {"opts": opts, "got": got, "expected": sorted(exp), "stderr": r.err.decode("utf-8", "replace")[-400:]})
        # --ignore-case folds non-ASCII letters as well, in the match and in the decision which directories to enter
        udir = os.path.join(work, "anch", "t5")
        for n_ in ("\u017bd/a.txt", "\u017bd/b.txt", "\u017cd/c.txt", "Zd/a.txt", "zd/b.txt", "\u00c4\u00d6/x.txt", "\u00e4\u00f6/y.txt"):
            lib.write_file(os.path.join(udir, n_), b"same5")
        for opts, exp in ((["-i", "--path", "t5/zd/*"], ["Zd/a.txt", "zd/b.txt"]), (["--path", "t5/\u017bd/*"], ["\u017bd/a.txt", "\u017bd/b.txt"]),
                          (["-i", "--path", "t5/\u017cd/*"], ["\u017bd/a.txt", "\u017bd/b.txt", "\u017cd/c.txt"]), (["-i", "--path", "t5/\u017bD/*"], ["\u017bd/a.txt", "\u017bd/b.txt", "\u017cd/c.txt"]),
                          (["-i", "--path", os.path.join(udir, "\u017cd/*")], ["\u017bd/a.txt", "\u017bd/b.txt", "\u017cd/c.txt"]),
                          (["-i", "--path", "t5/\u00e4\u00d6/*"], ["\u00c4\u00d6/x.txt", "\u00e4\u00f6/y.txt"]), (["--path", "t5/\u00e4\u00f6/*"], ["\u00e4\u00f6/y.txt"])):
            r = lib.run_fclones(["group", "t5", "--rf-over", "0", "-f", "fdupes"] + opts, os.path.dirname(udir), lib.base_env(work), timeout=60)
            got = sorted(os.path.relpath(os.fsdecode(dd.stfu8_decode(l)), udir) for l in r.out.decode("utf-8", "replace").splitlines() if l.strip()) if r.rc == 0 else None
            anch += 1
            if got != sorted(exp):
                chk.violation(f"C16/non-ascii-case-folding opts={' '.join(opts[:2] + [os.path.basename(os.path.dirname(opts[-1])) + '/*'])!r}",
                              f"`group t5 {' '.join(opts)}` selects {got} (exit {r.rc}), the options describe exactly {sorted(exp)}",
                              {"opts": opts, "got": got, "expected": sorted(exp), "stderr": r.err.decode("utf-8", "replace")[-400:]})
        # the same globs on the dedupe side (--path / --keep-path of `remove`): whole-path matches, never a match of a prefix of the path
        ddir = os.path.join(work, "anch", "t6")
        for n_ in ("0keep", "a/zz", "b/zz/f", "e/zzz", "zz", "c/zz.txt"):
            lib.write_file(os.path.join(ddir, n_), b"same6")
        rep6 = lib.run_fclones(["group", "t6"], os.path.dirname(ddir), lib.base_env(work), timeout=60)
        for opts, exp in ((["--path", "**/zz"], ["a/zz", "zz"]), (["--path", "**/zz*"], ["a/zz", "zz", "e/zzz", "c/zz.txt"]), (["--path", "**/zz/**"], ["b/zz/f"]),
                          (["--keep-path", "**/zz"], ["0keep", "b/zz/f", "e/zzz", "c/zz.txt"]), (["--name", "zz"], ["a/zz", "zz"]), (["--keep-name", "zz"], ["0keep", "b/zz/f", "e/zzz", "c/zz.txt"]),
                          (["--path", os.path.join(ddir, "?")], []), (["--path", os.path.join(ddir, "?/zz")], ["a/zz"])):
            r = lib.run_fclones(["remove", "--dry-run"] + opts, os.path.dirname(ddir), lib.base_env(work), stdin=rep6.out, timeout=60)
            removed = []
            if r.rc == 0:
                for line in r.out.splitlines():
                    if line.startswith(b"rm "):
                        removed.append(os.path.relpath(os.fsdecode(line[3:].strip().strip(b"'")), ddir))
            got = sorted(removed) if r.rc == 0 else None
            anch += 1
            if got != sorted(exp):
                chk.violation(f"C16/dedupe-side-glob opts={' '.join([opts[0], opts[1].replace(ddir, 't6')])!r}", f"`remove --dry-run {' '.join(opts)}` would remove {got} (exit {r.rc}), the pattern selects exactly {sorted(exp)}",
                              {"opts": opts, "got": got, "expected": sorted(exp), "stderr": r.err.decode("utf-8", "replace")[-400:]})
        chk.cov["anchor_char_cases"] = anch
        chk.cov["selector_pairs"] = len(sel)
        chk.cov["evaluations"] = pairs
        chk.cov["traces_validated_against_impl"] = len(vecs)
        chk.cov["distinct_nontrivial"] = nontrivial
        chk.cov["rule"] = (f"every glob of up to {3 if thorough else 2} tokens over 18 token kinds (literals incl. . - + ( ż /, ?, *, **, class, negated class, alternation, 4 ext-globs) x "
                           f"case folding, evaluated by TLC (Glob.tla) on every string of up to {max_len} characters over {{a,A,.,-,ż,/}}; each vector replayed through the real "
                           "Pattern::glob_with / matches / matches_partially / matches_prefix; non-trivial = glob that matches at least one string of the universe")
        chk.sample({"glob": vecs[len(vecs) // 2]["text"], "ci": vecs[len(vecs) // 2]["ci"], "matching": vecs[len(vecs) // 2]["matching"][:12]})
    finally:
        lib.rmtree(work)
    return chk.finish()


ALPHA = ["a", "A", ".", "-", "ż", "/"]
UNIVERSE = [""]
_last = [""]
for _ in range(4):
    _last = [s + c for s in _last for c in ALPHA]
    UNIVERSE += _last

if __name__ == "__main__":
    try:
        sys.exit(main(sys.argv[1] if len(sys.argv) > 1 else "quick"))
    except lib.ToolError as e:
        print("TOOL-ERROR", e, file=sys.stderr)
        sys.exit(2)
