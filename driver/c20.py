"""C20: files locked by another process are left alone."""
import itertools
import sys

import dops
import lib

PROP_INVS = {"ObsLocked", "ObsOthersProcessed", "LockedLeftAlone"}


def main(tier):
    chk = lib.Check("C20", tier)
    thorough = tier == "thorough"
    chk.assumptions = ["the foreign lock is an fcntl (POSIX) lock held by a separate process for the whole run",
                       "reflink success is emulated by the shim (no reflink file system in the sandbox)"]
    # the model: every subset of droppable members locked x --no-lock on/off x 5 operations (+ faults)
    for op in dops.OPS:
        for nolock in ("FALSE", "TRUE"):
            cfg = lib.os.path.join(lib.BUILD, f"MC_DedupeOps_c20_{op}_{nolock}.cfg")
            with open(cfg, "w") as f:
                f.write(f'CONSTANTS\n  Op = "{op}"\n  NoLock = {nolock}\n  MaxFaults = 1\n  Collision = FALSE\n  SameIno = FALSE\n  TruncOnOpen = FALSE\n'
                        "SPECIFICATION Spec\nINVARIANTS LockedLeftAlone Atomic RetainedUntouched\nCHECK_DEADLOCK FALSE\n")
            res = lib.run_tlc("MC_DedupeOps.tla", cfg, workers=4, timeout=600)
            chk.add_tlc(f"MC_DedupeOps[{op},nolock={nolock}]", res)
            if res.violation:
                chk.violation(f"C20/model op={op} nolock={nolock} {res.violation}",
                              "the specification (which follows the code) violates " + res.violation, {"tlc": res.output[-2500:]})
    lib.build_all()
    cases = []
    names = ["a", "b", "c", "d"]
    for op in dops.OPS:
        for nolock in (False, True):
            subsets = [s for r in range(0, 4) for s in itertools.combinations(["b", "c", "d"], r)]
            subsets += [("a",), ("a", "c")]
            for locked in subsets:
                for lt in (("ex", "sh", "eof", "far") if (thorough or len(locked) == 1) else ("ex",)):
                    if not locked and lt != "ex":
                        continue
                    for threads in ((1, 4) if thorough else (1,)):
                        cases.append(dops.Scn(op, nolock=nolock, locked=locked, nfiles=4, threads=threads, locktype=lt))
    lib.log(f"[C20] {len(cases)} runs with a foreign lock holder")

    def one(scn):
        ev, facts = dops.run_case(scn)
        return scn, ev, facts

    results = lib.pmap(one, cases, workers=12)
    runs = [(scn, ev) for scn, ev, _ in results]
    lock_refused = sum(1 for _, ev, _ in results for e in ev if e.get("call") == "lock" and not e.get("ok"))
    dops.validate(chk, runs, PROP_INVS, "foreign locks")
    chk.cov["evaluations"] = len(cases)
    chk.cov["distinct_nontrivial"] = len({(s.op, s.nolock, s.locked, s.locktype) for s in cases if s.locked})
    chk.cov["lock_attempts_refused"] = lock_refused
    chk.cov["rule"] = ("one real run per (operation, --no-lock, locked subset of a 4-file group, lock type, threads) while a separate "
                       "process holds fcntl locks; non-trivial = at least one member locked")
    chk.sample({"scenario": cases[3].key(), "events": [e for e in results[3][1] if e.get("ev") == "Call"][:10]})
    if lock_refused == 0 and not chk.violations:
        raise lib.ToolError("vacuity: no lock attempt was ever refused")
    return chk.finish()


if __name__ == "__main__":
    try:
        sys.exit(main(sys.argv[1] if len(sys.argv) > 1 else "quick"))
    except lib.ToolError as e:
        print("TOOL-ERROR", e, file=sys.stderr)
        sys.exit(2)
