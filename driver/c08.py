"""C08: dedupe obeys keep/drop patterns, priorities, link sets and -n."""
import json
import os
import random
import sys

import dd
import lib


def main(tier):
    chk = lib.Check("C08", tier)
    thorough = tier == "thorough"
    chk.assumptions = ["files of one sub-group are given equal times and depth (the property leaves min/max open)",
                       "chained priorities are lexicographic, first listed dominant; top/bottom are total orders (DESIGN.md 5.0)"]
    # the rule itself: consequences stated by the property hold for every case of a small universe
    cfg = os.path.join(lib.BUILD, "MC_Partition_run.cfg")
    with open(cfg, "w") as f:
        f.write('CONSTANTS\n  K = 3\n  PrioSet = {%s}\n  WithDrop = %s\nINIT Init\nNEXT Next\nINVARIANT Inv\nCHECK_DEADLOCK FALSE\n' % (
            '"top", "most-recently-modified", "least-nested"' if thorough else '"top", "most-recently-modified"', "TRUE" if thorough else "FALSE"))
    res = lib.run_tlc("MC_Partition.tla", cfg, workers=12, timeout=3000, coverage=False)
    chk.add_tlc("MC_Partition(theorems)", res)
    if res.violation:
        chk.violation(f"C08/model {res.violation}", "Partition.tla contradicts a consequence stated by the property", {"tlc": res.output[-2500:]})
        return chk.finish()
    lib.build_all()
    rng = random.Random(chk.seed)
    n = 6000 if thorough else 1300
    trees = []
    for k in range(n):
        cfg = dd.gen_config(rng)
        # now and then a group far larger than the thresholds at which library sorts change their algorithm: many replicas, each its own
        # sub-group, ranked by a time with three values only (ties everywhere), -n cutting inside a tie class
        if k % 60 == 30:
            cfg.update({"isolate": False, "cliRoots": False, "patterns": "none", "cliN": rng.choice([3, 7, 12, 20]), "rf_over": None,
                        "prios": [rng.choice([p_ for p_ in dd.PRIOS if "modified" in p_ or "accessed" in p_ or p_ in ("newest", "oldest")])]})
            files = dd.gen_group(rng, cfg, k=rng.choice([24, 40, 56]), distinct=True)
        else:
            files = dd.gen_group(rng, cfg)
        trees.append((k, files, cfg, rng.randint(0, 1 << 30)))

    def prepare(t):
        k, files, cfg, seed = t
        tree = dd.Tree(files, cfg, seed)
        tree.inv0 = lib.inventory(tree.base)      # before the times are set: reading the files would update their atime
        tree.set_times()
        r = dd.run_group(tree, "json")
        if r.rc != 0:
            tree.cleanup()
            return None          # e.g. --isolate needs more roots than rf: rejected by the CLI (documented)
        hdr, groups = dd.parse_json_report(r.out)
        main_paths = {os.path.normpath(p) for _, p in tree.paths}
        g = [g for g in groups if main_paths & {os.path.normpath(p) for p in g["paths"]}]
        if not g:
            tree.cleanup()
            return None          # the class does not satisfy the replication filter: nothing to dedupe
        r2 = dd.run_group(tree, "default" if k % 2 else "json")
        order, case = tree.case(k, g[0]["paths"])
        return tree, order, case, r2.out

    prepared = [p for p in lib.pmap(prepare, trees, workers=12) if p]
    cases = [c for _, _, c, _ in prepared]
    expected, res = dd.tlc_eval_partition(cases)
    chk.add_tlc("Eval_Partition(oracle)", res)

    def execute(p):
        tree, order, case, report = p
        try:
            env = lib.base_env(tree.work)
            inv0 = tree.inv0
            main = {os.path.relpath(p, tree.base) for _, p in tree.paths}
            cwd = tree.base if case["id"] % 3 else tree.work        # the dedupe command may run from another directory than `group`
            dry = lib.run_fclones(tree.dedupe_args("remove", ["--dry-run"]), cwd, env, stdin=report)
            r = lib.run_fclones(tree.dedupe_args("remove"), cwd, env, stdin=report)
            inv1 = lib.inventory(tree.base)
            strip = lambda r: {k: v for k, v in r.items() if k != "nlink"}
            gone = sorted(rel for rel in inv0 if rel not in inv1 and rel in main)
            changed = sorted(rel for rel in inv1 if rel in inv0 and strip(inv0[rel]) != strip(inv1[rel]) and inv0[rel]["t"] != "d")
            exp = expected[case["id"]]
            exp_paths = sorted(os.path.relpath(tree.path_of[order[i - 1]], tree.base) for i in exp["dropped"])
            dry_rm = sorted(x for x in (os.path.relpath(l[3:].strip().strip("'"), tree.base) for l in dry.out.decode("utf-8", "replace").splitlines() if l.startswith("rm ")) if x in main)
            return dict(case=case, exp=exp_paths, gone=gone, changed=changed, rc=r.rc, dry=dry_rm, panicked=r.panicked or dry.panicked,
                        args=tree.dedupe_args("remove"), gargs=tree.group_args(), err=r.err.decode("utf-8", "replace")[-600:],
                        paths=[os.path.relpath(tree.path_of[i], tree.base) for i in order])
        finally:
            tree.cleanup()

    results = lib.pmap(execute, prepared, workers=12)
    nontrivial = set()
    for r in results:
        c = r["case"]
        sig_cfg = f"prios={c['prios']} n={c['cliN']}/{c['hdrN']} roots={c['cliRoots']}/{c['hdrIsolate']} links={c['cliLinks']}/{c['hdrLinks']} drop={c['useDrop']}"
        if r["exp"]:
            nontrivial.add(json.dumps([c["files"], c["prios"], c["cliN"], c["hdrN"], c["cliRoots"], c["hdrIsolate"], c["useDrop"]], sort_keys=True))
        if r["panicked"]:
            chk.violation(f"C08/panic {sig_cfg}", "the dedupe command panicked: " + r["err"][-300:], r)
        elif r["gone"] != r["exp"] or r["changed"]:
            kind = "priority-chain-after-top" if (len(c["prios"]) > 1 and any(p in ("top", "bottom") for p in c["prios"][:-1])) else "partition"
            chk.violation(f"C08/{kind} {sig_cfg}", f"removed {r['gone']} but the rule of Partition.tla gives {r['exp']} (paths in report order: {r['paths']})", r)
        elif r["dry"] != r["exp"]:
            chk.violation(f"C08/dry-run {sig_cfg}", f"--dry-run lists {r['dry']} but the rule gives {r['exp']}", r)
    chk.cov["evaluations"] = len(results)
    chk.cov["traces_validated_against_impl"] = len(results)
    chk.cov["distinct_nontrivial"] = len(nontrivial)
    chk.cov["rule"] = ("seeded random groups of 2-5 files (hard-link sets, 2 isolate roots + outside, tied ranks of mtime/atime, creation and status-change order, "
                       "two nesting depths) x random option sets (0-3 priorities out of 12, keep/drop name/path patterns, n from CLI or header, roots and "
                       "--match-links from CLI or header); expectation = Partition.tla evaluated by TLC; non-trivial = distinct case with a non-empty dropped set")
    chk.cov["skipped_not_reported"] = len(trees) - len(prepared)
    if results:
        chk.sample({"group_args": results[0]["gargs"], "dedupe_args": results[0]["args"], "paths": results[0]["paths"], "expected_removed": results[0]["exp"],
                    "removed": results[0]["gone"]})
    return chk.finish()


if __name__ == "__main__":
    try:
        sys.exit(main(sys.argv[1] if len(sys.argv) > 1 else "quick"))
    except lib.ToolError as e:
        print("TOOL-ERROR", e, file=sys.stderr)
        sys.exit(2)
