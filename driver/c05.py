"""C05: replacing a file is atomic with respect to crashes and I/O errors."""
import json
import sys

import dops
import lib

PROP_INVS = {"ObsAtomic", "ObsRetained", "ObsOutside", "ObsCount", "ObsWarned", "ObsRestored",
             "Atomic", "RetainedUntouched", "FailedRestored", "SucceededReplaced", "SourceLast"}


def model(chk, thorough):
    for op in dops.OPS:
        for nolock in ("FALSE", "TRUE"):
            for same in ("FALSE", "TRUE"):      # TRUE: the second dropped path is a hard link of the retained file (group --match-links)
                cfg = lib.os.path.join(lib.BUILD, f"MC_DedupeOps_{op}_{nolock}_{same}.cfg")
                with open(cfg, "w") as f:
                    f.write(f'CONSTANTS\n  Op = "{op}"\n  NoLock = {nolock}\n  MaxFaults = 2\n  Collision = {"TRUE" if op == "move" else "FALSE"}\n  SameIno = {same}\n  TruncOnOpen = FALSE\n'
                            "SPECIFICATION Spec\nINVARIANTS Atomic RetainedUntouched OthersUntouched FailedRestored SucceededReplaced NoOverwrite SourceLast HappyPath CollisionKept\n"
                            "CHECK_DEADLOCK FALSE\n")
                res = lib.run_tlc("MC_DedupeOps.tla", cfg, workers=4, timeout=600)
                chk.add_tlc(f"MC_DedupeOps[{op},nolock={nolock},hardlinked={same}]", res)
                if res.violation:
                    chk.violation(f"C05/model {op} {res.violation}", "the specification itself violates " + res.violation, {"tlc": res.output[-3000:]})
    # the specification must be able to tell: `dedupe` opening the file to replace with O_TRUNC is invisible as long as the inodes differ
    # (every invariant holds), and destroys the retained copy when the path to replace is a hard link of it
    for same, want in (("FALSE", None), ("TRUE", "RetainedUntouched")):
        cfg = lib.os.path.join(lib.BUILD, f"MC_DedupeOps_trunc_{same}.cfg")
        with open(cfg, "w") as f:
            f.write(f'CONSTANTS\n  Op = "reflink"\n  NoLock = FALSE\n  MaxFaults = 2\n  Collision = FALSE\n  SameIno = {same}\n  TruncOnOpen = TRUE\n'
                    "SPECIFICATION Spec\nINVARIANTS Atomic RetainedUntouched OthersUntouched FailedRestored SucceededReplaced HappyPath\nCHECK_DEADLOCK FALSE\n")
        res = lib.run_tlc("MC_DedupeOps.tla", cfg, workers=4, timeout=600)
        chk.add_tlc(f"MC_DedupeOps[reflink, deviation O_TRUNC on open, hardlinked={same}: " + ("must be refuted]" if want else "harmless]"), res)
        if res.violation != want:
            raise lib.ToolError(f"vacuity: MC_DedupeOps with TruncOnOpen, SameIno={same}: expected {want}, got {res.violation}")


def plans_for(op, facts, thorough, tdev):
    k_mut = facts["mut_positions"]
    plans = []
    errs = ["EIO", "ENOSPC", "EXDEV", "EPERM", "EOPNOTSUPP"] if thorough else ["EIO", "ENOSPC"]
    for k in range(1, k_mut + 1):
        plans.append((f"mut||{k}|killbefore", "kill"))
        plans.append((f"mut||{k}|killafter", "kill"))
        for e in errs:
            plans.append((f"mut||{k}|fail={dops.ERRNOS[e]}", "fail1"))
    for k in range(1, facts["lock_positions"] + 1):
        plans.append((f"lock||{k}|fail=11", "fail1"))
    # operation fails and its roll-back fails too
    main = {"hard": "link", "soft": "symlink"}.get(op)
    if main:
        for e in errs[:2]:
            plans.append((f"{main}||1|fail={dops.ERRNOS[e]};;rename||2|fail=5", "fail2"))
            plans.append((f"{main}||2|fail={dops.ERRNOS[e]};;rename||4|fail=5", "fail2"))
    if op == "reflink":
        plans.append(("clone||2|fail=95;;rename||1|fail=5", "fail2"))
        plans.append(("clone||1|fail=95;;unlink||1|fail=5", "fail2"))
    return plans


def main(tier):
    chk = lib.Check("C05", tier)
    thorough = tier == "thorough"
    chk.assumptions = ["a kill happens at a system-call boundary (no power loss, no torn writes)",
                       "reflink success is reached through the shim's emulation of ioctl(FICLONE) (no reflink file system in the sandbox): the kernel's order of checks - EXDEV, EISDIR, EINVAL for non-regular files, 0 for an empty source, EINVAL for one inode - then a byte copy that never shrinks the destination",
                       "the file system calls are those interposed by the shim (checked against strace in the self-test)"]
    model(chk, thorough)
    if chk.violations:
        return chk.finish()
    lib.build_all()
    # the instrument itself: the interposer's view of the path-mutating calls must equal strace's (ptrace) view of the same run
    xc = {}
    for scn in (dops.Scn("remove"), dops.Scn("hard"), dops.Scn("soft"), dops.Scn("reflink"), dops.Scn("move"), dops.Scn("move", tdev="other")):
        ok, detail = dops.strace_crosscheck(scn)
        xc[f"{scn.op}/{scn.tdev}"] = detail if ok is not None else "strace unavailable: " + str(detail)
        if ok is False:
            raise lib.ToolError(f"the LD_PRELOAD interposer and strace disagree on the calls of `{scn.op}`: {detail}")
    chk.cov["interposer_vs_strace"] = xc
    scns = []
    for op in dops.OPS:
        scns.append(dops.Scn(op, threads=1))
        if op == "move":
            scns.append(dops.Scn(op, threads=1, tdev="other", size=150000))
        if op in ("reflink", "hard") or thorough:
            # a group reported with --match-links: the last path to replace is a hard link of the retained file (a clone onto itself must
            # fail and be rolled back; the other commands treat it like any other path)
            scns.append(dops.Scn(op, threads=1, hardlink=True))
        if thorough:
            scns.append(dops.Scn(op, threads=1, nolock=True))
            scns.append(dops.Scn(op, threads=2, nfiles=5, extra_groups=30))
    cases = []
    for scn in scns:
        ev, facts = dops.run_case(scn)          # calibration: list of call positions of this scenario
        cases.append((scn, None, "none"))
        for plan, cls in plans_for(scn.op, facts, thorough, scn.tdev):
            if scn.threads > 1 and cls == "fail2":
                continue
            cases.append((scn, plan, cls))
    lib.log(f"[C05] {len(cases)} runs under the shim")

    def one(c):
        scn, plan, cls = c
        ev, facts = dops.run_case(scn, plan, cls)
        return scn, ev, facts

    results = lib.pmap(one, cases)
    runs = [(scn, ev) for scn, ev, _ in results]
    nontrivial = set()
    killed = 0
    for scn, ev, facts in results:
        if any(e.get("ev") == "Kill" for e in ev):
            killed += 1
        if ev[0]["plan_text"]:
            nontrivial.add((scn.op, scn.tdev, scn.threads, ev[0]["plan_text"]))
    dops.validate(chk, runs, PROP_INVS, "fault / crash sweep")
    chk.cov["evaluations"] = len(cases)
    chk.cov["distinct_nontrivial"] = len(nontrivial)
    chk.cov["killed_runs"] = killed
    chk.cov["rule"] = ("one real run per (scenario tree, position k of a mutating or lock call from a calibration run, alternative in "
                       "{kill before, kill after, fail with each errno}) plus pairs (operation fails and its roll-back fails); "
                       "non-trivial = a distinct (scenario, fault plan)")
    chk.sample({"scenario": scns[1].key(), "plan": cases[5][1], "events": results[5][1][:12]})
    if killed == 0 and not chk.violations:
        raise lib.ToolError("vacuity: no run was killed")
    return chk.finish()


if __name__ == "__main__":
    try:
        sys.exit(main(sys.argv[1] if len(sys.argv) > 1 else "quick"))
    except lib.ToolError as e:
        print("TOOL-ERROR", e, file=sys.stderr)
        sys.exit(2)
