"""Checks of the `group` report against GroupObs.tla: C01, C03, C06, C14 (one engine, different emphasis and predicates)."""
import json
import os
import random
import sys

import gg
import gtrace
import lib

PREDS = {"C01": ["GroupsIdentical"],
         "C03": ["NoPathTwice", "OnlyScanned", "ExactPartition"],
         "C06": ["ExactPartition", "SpellingInvariant"],
         "C14": ["StatsMatch", "SortedBySize", "RootsTogether", "FormatsAgree", "CountsMatch", "AbsolutePaths", "OutputFileSame"]}

SPELLINGS = ["plain", "dot", "slash", "dotdot", "symlink", "absolute", "basedir-symlink", "basedir-dotdot"]


def spell(tree, root, how):
    if how == "plain":
        return root
    if how == "dot":
        return "./" + root
    if how == "slash":
        return root + "/"
    if how == "dotdot":
        return "O/../" + root
    if how == "absolute":
        return os.path.join(tree.base, root)
    if how == "symlink":
        l = os.path.join(tree.base, "L" + root)
        if not os.path.lexists(l):
            os.symlink(root, l)
        return "L" + root
    raise ValueError(how)


def one(t):
    pid, k, files, cfg, seed, extra = t
    tree = gg.Tree(files, seed, mounts=bool(cfg.get("mounts")))
    try:
        link_target = None
        if cfg.get("link_root"):
            # an input root that is itself a symbolic link to a regular file (with -S the link is the scanned path, a root of its own)
            cand = [f for f in files if f["hardlink_of"] is None and f["symlink_to"] is None]
            link_target = tree.path[cand[cfg["link_root"] % len(cand)]["id"]]
            lroots = ["LF", "LF2"] if cfg["link_root"] % 2 else ["LF"]        # two link roots to one file: two roots, two replicas
            for lr in lroots:
                os.symlink(os.path.relpath(link_target, tree.base), os.path.join(tree.base, lr))
            cfg = dict(cfg, roots=gg.ROOTS + lroots)
        staged = pid in ("C01", "C03", "C06") and not cfg.get("roots")
        trace = os.path.join(tree.work, "stages.ndjson") if staged else None
        env = tree.env(disk_kind=cfg.get("disk_kind"), trace=trace)
        args = gg.group_args(cfg, "json")
        if cfg.get("cache") and k % 2 == 0:
            # warm cache: the judged run is the second one over the same tree
            e0 = dict(env)
            e0.pop("FCLONES_VERIF_TRACE", None)
            lib.run_fclones(args, tree.base, e0, timeout=120)
        r = lib.run_fclones(args, tree.base, env, timeout=120)
        env.pop("FCLONES_VERIF_TRACE", None)
        facts = {"k": k, "cfg": cfg, "args": args, "rc": r.rc, "panicked": r.panicked, "timeout": r.timed_out, "stderr": r.err.decode("utf-8", "replace")[-600:]}
        if r.rc != 0 or r.timed_out:
            return None, facts
        hdr, groups, rawhdr = gg.parse_json(r.out)
        recs = gg.oracle(tree, cfg)
        if link_target:
            tr = next(x for x in recs if x["p"] == lib.printable(os.path.relpath(link_target, tree.base)))
            for n_, lr in enumerate(cfg["roots"][len(gg.ROOTS):]):
                recs.append({"p": lr, "cls": tr["cls"], "len": tr["len"], "ino": tr["ino"], "root": len(gg.ROOTS) + 1 + n_})
        run = gg.observed_run(k, tree, cfg, recs, hdr, groups)
        facts["nfiles"] = len(recs)
        if staged:
            facts["stage_lines"], facts["stage_problem"] = gtrace.build_run(k, tree, cfg, gtrace.read_events(trace))
        facts["ngroups"] = len(groups)
        facts["classes"] = len({x["cls"] for x in recs})
        facts["lens"] = sorted({x["len"] for x in recs})
        if pid == "C14":
            # the other formats of the same run, to stdout and to a file
            rel = lambda p: lib.printable(os.path.relpath(p, tree.base))
            jg = [[g["len"], [rel(p) for p in g["paths"]]] for g in groups]
            t_ = lib.run_fclones(gg.group_args(cfg, "default"), tree.base, env)
            th, tg = gg.parse_text_report(t_.out)
            facts["text_counts_ok"] = all(g["count"] == len(g["paths"]) for g in tg)
            facts["text_stats"] = th
            facts["json_stats"] = hdr
            c_ = lib.run_fclones(gg.group_args(cfg, "csv"), tree.base, env)
            cg = gg.parse_csv(c_.out)
            f_ = lib.run_fclones(gg.group_args(cfg, "fdupes"), tree.base, env)
            fg = gg.parse_fdupes(f_.out)
            facts["formats"] = {"json": jg, "text": [[g["len"], [rel(p) for p in g["paths"]]] for g in tg],
                                "csv": [[g["len"], [rel(p) for p in g["paths"]]] for g in cg],
                                "fdupes": [[rel(p) for p in g] for g in fg]}
            facts["csv_counts_ok"] = all(g["count"] == len(g["paths"]) for g in cg)
            facts["absolute"] = all(os.path.isabs(p) for g in groups for p in g["paths"]) and all(os.path.isabs(p) for g in tg for p in g["paths"])
            of = os.path.join(tree.work, "out.txt")
            with open(of, "wb") as fh:          # the output file exists already and is longer than the new report
                fh.write(b"# Report by fclones 0.0.0\n" + b"0123456789abcdef0123456789abcdef, 1 B (1 B) * 2:\n    /old/a\n    /old/b\n" * 2000)
            o_ = lib.run_fclones(gg.group_args(cfg, "default") + ["-o", of], tree.base, env)
            oh, og = gg.parse_text_report(open(of, "rb").read()) if os.path.exists(of) else ({}, [])
            facts["outfile_same"] = [[g["len"], g["paths"]] for g in og] == [[g["len"], g["paths"]] for g in tg] and oh == th and o_.out == b""
        if pid == "C06" and extra:
            # the same roots spelled differently must give the same reported sets
            variants = {}
            for how in extra:
                c2 = dict(cfg)
                xargs = []
                if how.startswith("basedir"):
                    # relative roots resolved against an absolute --base-dir that is not canonical
                    lb = os.path.join(tree.work, "Lbase")
                    if not os.path.lexists(lb):
                        os.symlink("b", lb)
                    xargs = ["--base-dir", lb if how == "basedir-symlink" else os.path.join(tree.base, "R1", "..")]
                else:
                    c2["roots"] = [spell(tree, r_, how) for r_ in cfg.get("roots", gg.ROOTS)]
                rr = lib.run_fclones(gg.group_args(c2, "json") + xargs, tree.work if xargs else tree.base, env, timeout=120)
                if rr.rc != 0:
                    variants[how] = "exit %d" % rr.rc
                    continue
                _, g2, _ = gg.parse_json(rr.out)
                variants[how] = sorted(sorted(os.path.normpath(p) for p in g["paths"]) for g in g2)
            base = sorted(sorted(os.path.normpath(p) for p in g["paths"]) for g in groups)
            facts["spelling_diff"] = sorted(h for h, v in variants.items() if v != base)
        return run, facts
    finally:
        tree.cleanup()


def probe_leak_case(fmt):
    """`group --transform PROG` starts PROG once to see that it can be launched and kills it. Under the schedule in which the child runs
    before the kill arrives (forced by delaying the kill in the interposer; standard input is not a terminal), whatever PROG prints must
    not end up in the report on standard output."""
    work = lib.mkscratch("c14p")
    try:
        base = os.path.join(work, "b")
        for n, d in (("a", b"x" * 100), ("b", b"x" * 100), ("c", b"y" * 100)):
            lib.write_file(os.path.join(base, "t", n), d)
        bind = os.path.join(work, "bin")
        os.makedirs(bind)
        with open(os.path.join(bind, "vt_mark"), "w") as f:
            f.write("#!/bin/sh\nprintf 'PROBE-LEAK\\n'\nexec cat\n")
        os.chmod(os.path.join(bind, "vt_mark"), 0o755)
        env = lib.base_env(work, disk_kind="ssd")
        env["PATH"] = bind + ":" + env["PATH"]
        env = lib.shim_env(env, root=base)
        env["FSSHIM_KILL_DELAY_MS"] = "300"
        r = lib.run_fclones(["group", "t", "-f", fmt, "--transform", "vt_mark"], base, env, timeout=60)
        return {"fmt": fmt, "rc": r.rc, "leak": b"PROBE-LEAK" in r.out, "stdout": r.out.decode("utf-8", "replace")[:400],
                "reported": r.out.count(b"/t/a"), "timeout": r.timed_out}
    finally:
        lib.rmtree(work)


def main(pid, tier):
    chk = lib.Check(pid, tier)
    thorough = tier == "thorough"
    chk.assumptions = ["content classes from a direct comparison of the bytes (dict lookup on the byte strings), independent of any hash function of fclones",
                       "hash collisions of the 128-bit hashes are outside the property", "transform programs are deterministic helper scripts"]
    if pid in ("C01", "C03", "C06"):
        # the design: every input of a small universe (byte strings, link structure, filters, unreadable identity) and every
        # order of the hashing tasks of the staged pipeline keeps Sound / Complete / NeverSplit / FilterHonoured (Grouping.tla)
        cfgs = ["quick", "quickS", "quickT", "bigS", "iso", "thorough"] if thorough else {"C01": ["quickS", "quickT", "bigS"], "C03": ["quick"], "C06": ["isoq"]}[pid]
        for c in cfgs:
            res = lib.run_tlc("MC_Grouping.tla", f"MC_Grouping_{c}.cfg", workers=12 if thorough else 8, timeout=7200, coverage=c.startswith("quick"), xmx="24g")
            chk.add_tlc(f"MC_Grouping_{c}(staged pipeline, all inputs of the small universe x all task orders)", res)
            if res.violation:
                chk.violation(f"{pid}/model {res.violation}", "Grouping.tla (the staged pipeline as specified) violates " + res.violation, {"tlc": res.output[-3000:]})
                return chk.finish()
    lib.build_all()
    rng = random.Random(chk.seed * 7 + int(pid[1:]))
    n = {"C01": 700, "C03": 700, "C06": 300, "C14": 250}[pid] * (5 if thorough else 1)
    cases = []
    for k in range(1, n + 1):
        if pid == "C06":
            files = gg.gen_tree(rng, small=True, hardlink_p=0.5, tiny=rng.random() < 0.5)
        else:
            files = gg.gen_tree(rng, small=(pid == "C14"))
        cfg = gg.gen_cfg(rng, allow_transform=(pid in ("C01", "C03", "C14")))
        if pid == "C14" and k % 3 == 0:
            # names that every output format has to escape in its own way: backslash, line feed, a byte that is not UTF-8, comma, double quote
            for f_, nm in zip(rng.sample(files, min(len(files), 5)), ["b\\s", "n\nl", "x\udcff", "c,d", 'q"r']):
                f_["name"] = nm + str(f_["id"])
        if pid == "C03" and k % 8 == 0 and not cfg["symlinks"]:
            # size bounds placed exactly on lengths that occur in the tree (both bounds are inclusive)
            lens_ = sorted({f_["len"] for f_ in files if f_["len"] >= 1})
            if lens_:
                lo = rng.choice(lens_)
                cfg["max_size"] = rng.choice([l_ for l_ in lens_ if l_ >= lo])
                if rng.random() < 0.5:
                    cfg["min_size"] = lo
        if pid == "C06":
            if not cfg["symlinks"]:
                cfg["matchLinks"] = rng.random() < 0.45
            if rng.random() < 0.6:
                for key in ("unique", "rf_under"):
                    cfg.pop(key, None)
                cfg["rf_over"] = rng.choice([0, 1, 2, 2, 3])
        if pid == "C06" and k % 6 == 0:
            # identities interleaved on arrival: many threads, hard links next to copies, counts that matter (2 replicas listed as 3-4 paths)
            files = gg.linky_tree(rng)
            cfg.update({"symlinks": False, "isolate": False, "matchLinks": False, "threads": [rng.choice(["default:16,16", "16", "ssd:8,8"])], "_kind": "ssd"})
            for key in ("unique", "rf_under", "rf_over", "max_prefix", "max_suffix"):
                cfg.pop(key, None)
            cfg[rng.choice(["rf_under", "rf_over"])] = rng.choice([2, 3])
        if pid in ("C01", "C03") and k % 12 == 0:
            # both hash windows are the whole file (prefix and suffix sizes above the file length, length above the suffix threshold)
            files = gg.whole_window_tree(rng)
            for key in ("transform", "unique", "rf_under", "rf_over"):
                cfg.pop(key, None)
            cfg.update({"disk_kind": "ssd", "max_prefix": 100000, "max_suffix": rng.choice([100000, 100000, 65536]), "isolate": False})
        if pid in ("C03", "C06") and k % 10 == 0:
            cfg["mounts"] = True
        if pid in ("C03", "C06") and not cfg.get("transform") and rng.random() < 0.15:
            # --skip-content-hash: grouping ends after the suffix stage. Every flipped byte goes to offset 0, which every
            # prefix window covers, so that "same prefix and suffix" and "same content" are the same partition
            cfg["skip_content"] = True
            for f_ in files:
                if f_["flip"] is not None:
                    f_["flip"] = 0
        extra = None
        if pid == "C03" and rng.random() < 0.3:
            cfg["roots"] = rng.choice([["R1", "R1", "R2", "O"], ["R1", "R1/s", "R2", "O"], ["R1", "R2", "O", "R2/s/t"], [".", "R1"], ["R2", "R1", "O"]])
            cfg["isolate"] = False
        if pid == "C06":
            cfg["disk_kind"] = cfg.pop("_kind", None)
            extra = rng.sample(SPELLINGS[1:], 2)
            if cfg["symlinks"] and cfg["isolate"] and not cfg.get("mounts") and rng.random() < 0.5:
                cfg["link_root"] = rng.randint(1, 1000)
                extra = ["dot", "absolute"]
        cases.append((pid, k, files, cfg, rng.randint(0, 1 << 30), extra))
    results = lib.pmap(one, cases, workers=12)
    runs = [r for r, f in results if r]
    facts = {f["k"]: f for r, f in results}
    verdicts, res = gg.tlc_eval(runs)
    chk.add_tlc("Eval_GroupObs(property predicates on observed reports)", res)
    nontrivial = set()
    failed_runs = 0
    for k, f in facts.items():
        c = f["cfg"]
        opts = " ".join(a for a in f["args"][4:] if not a.startswith("/"))
        if f["rc"] != 0 or f["timeout"]:
            failed_runs += 1
            expected_cli_error = "--isolate flag requires" in f["stderr"]
            if not (f["panicked"] or f["timeout"] or expected_cli_error):
                chk.violation(f"{pid}/group-failed opts={opts}", "`group` exited with an error: " + f["stderr"][-250:], f)
            if f["panicked"] or f["timeout"]:
                cls = "max-suffix-size-exceeds-file-length" if (c.get("max_suffix") or 0) > 60000 else "other"
                chk.violation(f"{pid}/no-report class={cls} opts={opts}", "`group` panicked / aborted / hung instead of writing a report: " + f["stderr"][-250:], f)
            continue
        v = verdicts[k]
        if f.get("ngroups", 0) > 0:
            nontrivial.add(json.dumps([c, f["lens"], f["classes"]], sort_keys=True))
        tags = []
        if c.get("transform"):
            tags.append("transform")
        sig_tail = f"opts={opts} tags={'+'.join(tags) or 'none'}"
        for pred in PREDS[pid]:
            ok = True
            if pred in v:
                ok = v[pred]
            elif pred == "FormatsAgree":
                fm = f["formats"]
                ok = fm["json"] == fm["text"] == fm["csv"] and [g[1] for g in fm["json"]] == fm["fdupes"]
            elif pred == "CountsMatch":
                ok = f["text_counts_ok"] and f["csv_counts_ok"] and f["text_stats"] == {kk: vv for kk, vv in f["json_stats"].items()}
            elif pred == "AbsolutePaths":
                ok = f["absolute"]
            elif pred == "OutputFileSame":
                ok = f["outfile_same"]
            elif pred == "SpellingInvariant":
                ok = not f.get("spelling_diff")
                if not ok:
                    sig_tail += " spellings=" + "+".join(f["spelling_diff"])
            if not ok:
                chk.violation(f"{pid}/{pred} {sig_tail}", f"{pred} is false for `fclones {' '.join(f['args'])}` ({f.get('nfiles')} files, {f.get('classes')} classes, {f.get('ngroups')} groups)",
                              {"facts": f, "verdict": v})
    staged = [(k, f["stage_lines"]) for k, f in sorted(facts.items()) if f.get("stage_lines")]
    for k, f in sorted(facts.items()):
        if f.get("stage_problem"):
            chk.divergences += 1
            print(f"DIVERGENCE property={pid} no stage trace for `fclones {' '.join(f['args'])}`: {f['stage_problem']}")
    gtrace.validate(chk, pid, staged, lambda rid: facts.get(rid))
    for f in facts.values():
        f.pop("stage_lines", None)
    if pid == "C14":
        for fmt in ("default", "fdupes", "csv", "json"):
            pr = probe_leak_case(fmt)
            if pr["rc"] != 0 or pr["timeout"] or pr["reported"] != 1:
                raise lib.ToolError(f"probe-leak case did not produce a report: {pr}")
            if pr["leak"]:
                chk.violation(f"C14/report-polluted fmt={fmt} by=transform-launch-probe",
                              "output of the transform program's launch probe is mixed into the report on standard output", pr)
        chk.cov["probe_leak_cases"] = 4
    chk.cov["evaluations"] = len(facts)
    chk.cov["traces_validated_against_impl"] = len(runs)
    chk.cov["distinct_nontrivial"] = len(nontrivial)
    chk.cov["runs_without_report"] = failed_runs
    chk.cov["rule"] = ("seeded trees: 2-5 content classes with lengths straddling 4 KiB / 16 KiB / 64 KiB / 128 KiB, single-byte flips at the stage boundaries, copies, hard links, "
                       "symlinks, 3 roots; random configuration (7 hash functions, cache, device kind pin, prefix/suffix sizes, thread pools, rf-over/under/unique, isolate, "
                       "match-links, symbolic-links, transforms that keep/shrink/expand); non-trivial = distinct (configuration, lengths, classes) with at least one reported group")
    if runs:
        chk.sample({"args": facts[runs[0]["id"]]["args"], "files": runs[0]["files"][:6], "groups": runs[0]["groups"][:3], "stats": runs[0]["stats"]})
    return chk.finish()


if __name__ == "__main__":
    try:
        sys.exit(main(sys.argv[1], sys.argv[2] if len(sys.argv) > 2 else "quick"))
    except lib.ToolError as e:
        print("TOOL-ERROR", e, file=sys.stderr)
        sys.exit(2)
