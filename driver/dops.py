"""Engine shared by C05 / C18 / C20: real runs of the dedupe commands under the syscall shim, projected to
events and validated by TLC against DedupeOps.tla (spec/Trace_DedupeOps.tla, modes full and obs)."""
import fcntl
import json
import os
import re
import subprocess
import threading

import lib

O_CREAT = 0o100
OPS = {"remove": ["remove"], "hard": ["link"], "soft": ["link", "--soft"], "reflink": ["dedupe"], "move": ["move"]}
ERRNOS = {"EIO": 5, "ENOSPC": 28, "EXDEV": 18, "EPERM": 1, "EOPNOTSUPP": 95}
TMP_RE = re.compile(r"^(.*)\.[A-Za-z0-9]{24}$")
EXTRA_RE = re.compile(r"/r/h\d+(/|$)")


class Scn:
    """One scenario tree: a group of identical files g/a g/b g/c (+ optional hard link), an unrelated file,
    for move a target directory T (same or other device) optionally pre-populated."""

    def __init__(self, op, nolock=False, locked=(), collision=None, tdev="same", threads=1, size=3000, nfiles=3,
                 tinside=False, reldir=False, extra_groups=0, label="", names=None, locktype="ex", hardlink=False):
        self.op, self.nolock, self.locked, self.collision = op, nolock, tuple(locked), collision
        self.tdev, self.threads, self.size, self.nfiles = tdev, threads, size, nfiles
        self.tinside, self.reldir, self.extra_groups, self.label = tinside, reldir, extra_groups, label
        self.names, self.locktype = names, locktype
        self.hardlink = hardlink        # the last member is a hard link of the first (retained) one; the report is made with --match-links

    def key(self):
        return dict(op=self.op, nolock=self.nolock, locked=list(self.locked), collision=self.collision, tdev=self.tdev,
                    threads=self.threads, size=self.size, nfiles=self.nfiles, tinside=self.tinside, reldir=self.reldir,
                    extra_groups=self.extra_groups, names=[lib.printable(n) for n in self.names] if self.names else None,
                    locktype=self.locktype, label=self.label, hardlink=self.hardlink)


def content(tag, size):
    return (tag.encode() * (size // len(tag) + 1))[:size]


def materialize(scn, work):
    root = os.path.join(work, "r")
    g = os.path.join(root, "g")
    os.makedirs(g)
    names = list(scn.names) if scn.names else ["a", "b", "c", "d", "e"][:scn.nfiles]
    for n in names:
        if scn.hardlink and n == names[-1]:
            os.link(os.path.join(g, names[0]), os.path.join(g, n))
        else:
            lib.write_file(os.path.join(g, n), content("X", scn.size))
    members = [os.path.join(g, n) for n in names]
    for i in range(scn.extra_groups):
        for n in ("p", "q"):
            lib.write_file(os.path.join(root, f"h{i}", n), content(f"G{i}", 100 + i))
    lib.write_file(os.path.join(root, "o"), content("Z", 777))
    tdir = None
    if scn.op == "move":
        if scn.tinside:
            tdir = os.path.join(root, "T")
        elif scn.tdev == "other":
            tdir = lib.mkscratch("dopsT", base="/var/tmp")
        else:
            tdir = os.path.join(work, "T")
        os.makedirs(tdir, exist_ok=True)
        if scn.collision:
            victim = members[1]
            tgt = os.path.normpath(tdir + "/" + victim.lstrip("/"))
            if scn.collision == "file":
                lib.write_file(tgt, content("Y", 55))
            elif scn.collision == "dir":
                os.makedirs(tgt)
            elif scn.collision == "parentfile":      # a regular file where a parent directory is needed
                lib.write_file(os.path.dirname(tgt), content("Y", 55))
    return root, members, tdir


class Projector:
    """Injective renaming of concrete paths / inodes / contents into the abstract vocabulary of the specification."""

    def __init__(self, work, tdir):
        self.work, self.tdir = work, tdir
        self.inos, self.contents = {}, {}

    def path(self, p):
        if p is None:
            return None
        p = os.path.normpath(p)
        if self.tdir and (p == self.tdir or p.startswith(self.tdir + "/")):
            return "T:" + lib.printable(os.path.relpath(p, self.tdir))
        if p.startswith(self.work + "/"):
            return lib.printable(os.path.relpath(p, self.work))
        return lib.printable(p)

    def ino(self, i):
        return self.inos.setdefault(i, len(self.inos) + 1)

    def learn(self, invs):
        for inv in invs:
            for rel, r in inv.items():
                if r["t"] == "f" and r["len"] > 0:
                    self.contents.setdefault(r["sha"], "C%d" % (len(self.contents) + 1))

    def content(self, r, known_only=False):
        if r["len"] == 0:
            return "EMPTY"
        if r["sha"] in self.contents:
            return self.contents[r["sha"]]
        return "PARTIAL"

    def files(self, base, inv, prefix):
        out = []
        for rel, r in sorted(inv.items()):
            p = self.path(os.path.normpath(os.path.join(base, rel)))
            if r["t"] == "f":
                out.append({"p": p, "k": "file", "ino": self.ino(r["ino"]), "c": self.content(r)})
            elif r["t"] == "l":
                tgt = r["target"]
                if not tgt.startswith("/"):
                    tgt = os.path.normpath(os.path.join(os.path.dirname(os.path.join(base, rel)), tgt))
                out.append({"p": p, "k": "link", "to": self.path(tgt)})
            elif r["t"] == "d":
                out.append({"p": p, "k": "dir"})
            else:
                out.append({"p": p, "k": "other"})
        return out


def project_calls(log, prj, members_abs):
    """Shim log -> Call / Kill events (mutating calls and the lock prefix only). Deterministic, no guessing:
    open flags decide lockopen/create, copy calls on one target are summed up at its close."""
    evs = []
    extra_worker = {}
    wbytes, wfail, wsrc = {}, {}, {}
    srclen = {}
    for e in log:
        c = e["call"]
        p1 = e.get("p1")
        p2 = e.get("p2")
        ok = e["ret"] >= 0
        tid = e.get("tid")
        if c == "openw" and not (e.get("a", 0) & O_CREAT) and p1:
            extra_worker[tid] = bool(EXTRA_RE.search(p1))        # the lock prefix starts a command: whose file is this worker on now?
        if (p1 and EXTRA_RE.search(p1)) or (p2 and EXTRA_RE.search(p2)):
            continue                # the extra groups are not part of the modelled world (see in_tree)
        if c == "mkdir" and extra_worker.get(tid):
            continue                # target directories made while moving a file of an extra group
        if c == "KILL":
            # copies in flight when the process dies: what was written so far is what the target holds
            for n1 in list(wbytes):
                if (prj.path(n1) or "").startswith("T:") and (wbytes[n1] > 0 or wfail[n1]):
                    src = wsrc.get(n1)
                    try:
                        full = src is not None and wbytes[n1] == os.path.getsize(src)
                    except OSError:
                        full = False
                    evs.append({"ev": "Call", "call": "copy", "p1": prj.path(n1), "p2": prj.path(src) if src else "",
                                "ok": bool(full), "sib": "", "errno": 0})
                del wbytes[n1]
            evs.append({"ev": "Kill", "when": "before" if e["inj"] == 1 else "after"})
            continue
        if c == "openw":
            if e["a"] & O_CREAT:
                n1 = os.path.normpath(p1)
                m = TMP_RE.match(n1)
                sib = prj.path(m.group(1)) if m and m.group(1) in members_abs else ""
                evs.append({"ev": "Call", "call": "create", "p1": prj.path(p1), "p2": "", "ok": ok, "sib": sib, "errno": e["errno"]})
                if ok:
                    wbytes[n1], wfail[n1] = 0, False
            else:
                evs.append({"ev": "Call", "call": "lockopen", "p1": prj.path(p1), "p2": "", "ok": ok, "sib": "", "errno": e["errno"]})
        elif c == "lock":
            if e["a"] != fcntl.F_UNLCK:
                evs.append({"ev": "Call", "call": "lock", "p1": prj.path(p1), "p2": "", "ok": ok, "sib": "", "errno": e["errno"]})
        elif c in ("rename", "link"):
            n1 = os.path.normpath(p1)
            m = TMP_RE.match(os.path.normpath(p2))
            sib = prj.path(m.group(1)) if m and m.group(1) == n1 else ""
            evs.append({"ev": "Call", "call": c, "p1": prj.path(p1), "p2": prj.path(p2), "ok": ok, "sib": sib, "errno": e["errno"]})
        elif c == "symlink":
            evs.append({"ev": "Call", "call": c, "p1": prj.path(p1), "p2": prj.path(p2), "ok": ok, "sib": "", "errno": e["errno"]})
        elif c in ("unlink", "clone"):
            evs.append({"ev": "Call", "call": c, "p1": prj.path(p1), "p2": prj.path(p2) if p2 else "", "ok": ok, "sib": "", "errno": e["errno"]})
        elif c == "mkdir":
            if e["errno"] == 2 and e["inj"] == 0:
                continue            # create_dir_all probing a missing parent: part of its algorithm, not a failure
            evs.append({"ev": "Call", "call": c, "p1": prj.path(p1), "p2": "", "ok": ok, "sib": "", "errno": e["errno"]})
        elif c == "utimes":
            if p1 and os.path.normpath(p1) in members_abs:
                evs.append({"ev": "Call", "call": c, "p1": prj.path(p1), "p2": "", "ok": ok, "sib": "", "errno": e["errno"]})
        elif c in ("copy", "write"):
            n1 = os.path.normpath(p1) if p1 else None
            if n1 in wbytes:
                if e["ret"] < 0:
                    if not (e["errno"] in (18, 38, 22, 95, 1) and e["inj"] == 0 and c == "copy"):   # natural fall-back of fs::copy
                        wfail[n1] = True
                else:
                    wbytes[n1] += e["ret"]
                if p2:
                    wsrc[n1] = os.path.normpath(p2)
        elif c == "close":
            n1 = os.path.normpath(p1)
            if n1 in wbytes and e.get("a") == 1:
                src = wsrc.get(n1)
                # the target of a move-by-copy is closed: the copy is over (complete or not)
                if (prj.path(n1) or "").startswith("T:"):
                    try:
                        full = src is not None and wbytes[n1] == os.path.getsize(src)
                    except OSError:
                        full = wbytes[n1] > 0
                    evs.append({"ev": "Call", "call": "copy", "p1": prj.path(n1), "p2": prj.path(src) if src else "",
                                "ok": bool(full), "sib": "", "errno": 0})
                del wbytes[n1]
    return evs


class Locker:
    """Foreign process holding fcntl write locks (a separate python process, so that the locks conflict with fclones')."""

    def __init__(self, paths, kind="ex"):
        self.proc = None
        if paths:
            # kinds: ex / sh = the whole file; eof = an appender's write lock from the end of the file on; far = one byte far beyond the end
            mode, lk = ("rb", "LOCK_SH") if kind == "sh" else ("r+b", "LOCK_EX")
            rng = {"eof": ",0,0,os.SEEK_END", "far": ",1,1<<30,0"}.get(kind, "")
            code = (f"import fcntl,sys,os\nfds=[]\nfor p in sys.argv[1:]:\n f=open(os.fsencode(p),'{mode}'); fcntl.lockf(f,fcntl.{lk}{rng}); fds.append(f)\n"
                    "print('locked',flush=True)\nsys.stdin.read()\n")
            self.proc = subprocess.Popen(["python3", "-c", code] + list(paths), stdin=subprocess.PIPE, stdout=subprocess.PIPE)
            self.proc.stdout.readline()

    def release(self):
        if self.proc:
            try:
                self.proc.stdin.close()
                self.proc.wait(timeout=10)
            except Exception:
                self.proc.kill()


def denull(x):
    if x is None:
        return ""
    if isinstance(x, dict):
        return {k: denull(v) for k, v in x.items()}
    if isinstance(x, list):
        return [denull(v) for v in x]
    return x


def in_tree(rel):
    # the extra duplicate groups r/h<i>/{p,q} only keep the other worker threads busy: they are not part of the modelled world
    if re.search(r"(^|/)r/h\d+(/|$)", rel):          # also where `move` puts them under the target directory
        return False
    return rel in ("r", "T") or rel.startswith("r/") or rel.startswith("T/")


def sibs_of(root_abs, members_abs, prj):
    out = []
    for m in members_abs:
        d = os.path.dirname(m)
        try:
            names = os.listdir(d)
        except OSError:
            names = []
        for n in names:
            mm = TMP_RE.match(os.path.join(d, n))
            if mm and mm.group(1) == m:
                out.append({"f": prj.path(m), "v": prj.path(os.path.join(d, n))})
    return out


def run_case(scn, plan=None, plan_class="none", report_fmt="default", emuclone=True, keep_log=False):
    """Materialises the scenario, runs group + the dedupe op (under the shim, with the fault plan),
    returns the events of the run (Reset, Call*, [Kill], End) and raw facts."""
    work = lib.mkscratch("dops")
    tdir_outside = None
    locker = None
    try:
        root, members, tdir = materialize(scn, work)
        if tdir and not tdir.startswith(work):
            tdir_outside = tdir
        env = lib.base_env(work)
        env["RAYON_NUM_THREADS"] = str(scn.threads)
        rep = os.path.join(work, "report")
        g = lib.run_fclones(["group", "r", "-o", rep, "-f", report_fmt] + (["-H"] if scn.hardlink else []), work, env)
        if g.rc != 0:
            raise lib.ToolError(f"group failed in scenario {scn.key()}: {g.err[-500:]}")
        prj = Projector(work, tdir)
        inv0 = lib.inventory(work, with_times=True)
        invT0 = lib.inventory(tdir, with_times=True) if tdir_outside else {}
        prj.learn([inv0, invT0])
        files0 = prj.files(work, {k: v for k, v in inv0.items() if in_tree(k)}, "")
        if tdir_outside:
            files0 += prj.files(tdir, invT0, "")
        retained = members[0]
        dropped = members[1:]
        mvt = []
        if scn.op == "move":
            for f in dropped:
                mvt.append({"f": prj.path(f), "v": prj.path(os.path.normpath(tdir + "/" + f.lstrip("/")))})
        locked_abs = [os.path.join(root, "g", n) for n in scn.locked]
        mt = [{"f": prj.path(os.path.join(work, rel)), "v": str(r["mtime"])} for rel, r in inv0.items() if r["t"] == "f" and rel.startswith("r/")]
        reset = {"ev": "Reset", "scn": scn.key(), "plan": plan_class, "plan_text": plan or "", "files": files0,
                 "members": [prj.path(m) for m in members], "dropped": [prj.path(f) for f in dropped],
                 "keep": [{"f": prj.path(f), "v": prj.path(retained)} for f in dropped], "mvt": mvt,
                 "locked": [prj.path(p) for p in locked_abs], "mt": mt}
        locker = Locker(locked_abs, scn.locktype)
        logf = os.path.join(work, "shim.log")
        senv = lib.shim_env(env, log_path=logf, root=work + (":" + tdir if tdir_outside else ""), plan=plan, emuclone=emuclone)
        args = list(OPS[scn.op])
        if scn.op == "move":
            args.append(os.path.relpath(tdir, work) if scn.reldir else tdir)
        if scn.nolock:
            args.append("--no-lock")
        with open(rep, "rb") as f:
            repdata = f.read()
        if scn.label == "dotdot":
            # a post-processed report: the same files, spelled with `..` and `.` components
            gdir = os.path.join(root, "g").encode()
            repdata = repdata.replace(gdir + b"/", gdir + b"/../g/./")
        r = lib.run_fclones(args, work, senv, stdin=repdata, timeout=60)
        locker.release()
        locker = None
        log = lib.read_shim_log(logf)
        members_abs = set(os.path.normpath(m) for m in members)
        calls = project_calls(log, prj, members_abs)
        inv1 = lib.inventory(work, with_times=True)
        invT1 = lib.inventory(tdir, with_times=True) if tdir_outside else {}
        files1 = prj.files(work, {k: v for k, v in inv1.items() if in_tree(k)}, "")
        if tdir_outside:
            files1 += prj.files(tdir, invT1, "")
        m = re.search(rb"Processed (\d+) files", r.err)
        processed = int(m.group(1)) if m else -1
        if scn.extra_groups:
            processed = -2        # `Processed N files` also counts the files of the extra groups, which are outside the modelled world
        warns = len(re.findall(rb"warn", r.err))
        mt1 = [{"f": prj.path(os.path.join(work, rel)), "v": str(rr["mtime"])} for rel, rr in inv1.items() if rr["t"] == "f" and rel.startswith("r/")]
        end = {"ev": "End", "inv": files1, "processed": processed, "warns": warns, "rc": r.rc,
               "sibs": sibs_of(root, members, prj), "mt": mt1, "panicked": r.panicked, "timeout": r.timed_out}
        events = [reset] + calls + [end]
        facts = {"stderr": r.err.decode("latin-1")[-1500:], "rc": r.rc, "ncalls": len(calls),
                 "mut_positions": sum(1 for e in log if e["call"] in ("rename", "link", "symlink", "unlink", "mkdir", "openw", "write", "clone",
                                                                      "utimes", "chmod", "chown", "copy", "truncate", "rmdir")),
                 "lock_positions": sum(1 for e in log if e["call"] == "lock" and e["a"] != fcntl.F_UNLCK),
                 "raw": log if keep_log else None}
        return events, facts
    finally:
        if locker:
            locker.release()
        lib.rmtree(work)
        if tdir_outside:
            lib.rmtree(tdir_outside)


CFG = """CONSTANTS
  Op = "{op}"
  NoLock = {nolock}
  Mode = "{mode}"
SPECIFICATION TraceSpec
CONSTRAINT Track
POSTCONDITION Accepted
CHECK_DEADLOCK FALSE
"""


def validate(chk, runs, prop_invariants, label):
    """runs: list of (scn, events). Groups by (op, nolock), writes trace files, validates in both modes.
    prop_invariants: names of invariants that are violations of the property being checked (others are reported as notes)."""
    groups = {}
    for scn, events in runs:
        groups.setdefault((scn.op, scn.nolock), []).append((scn, events))
    outdir = lib.mkscratch("dopsv")
    total = 0
    try:
        for (op, nolock), lst in sorted(groups.items()):
            tfs = {}
            for mode in ("obs", "full"):
                tfs[mode] = os.path.join(outdir, f"trace_{op}_{int(nolock)}_{mode}.ndjson")
                with open(tfs[mode], "w") as f:
                    for scn_, events in lst:
                        # a process killed while other worker threads are inside system calls: calls that completed in the kernel but
                        # were not logged yet are unknown, so such a run cannot drive the specification step by step (mode full);
                        # its end state is still judged (mode obs)
                        if mode == "full" and scn_.threads > 1 and events[0].get("plan") == "kill":
                            continue
                        # workers busy with the extra groups share the target directories and the log with the modelled commands: such a
                        # run is judged by its end state only
                        if mode == "full" and scn_.extra_groups:
                            continue
                        for e in events:
                            f.write(json.dumps(denull(e)) + "\n")
            total += len(lst)
            for mode in ("obs", "full"):
                tf = tfs[mode]
                if os.path.getsize(tf) == 0:
                    continue
                cfg = os.path.join(lib.BUILD, f"Trace_DedupeOps_{op}_{int(nolock)}_{mode}.cfg")
                with open(cfg, "w") as f:
                    f.write(CFG.format(op=op, nolock="TRUE" if nolock else "FALSE", mode=mode))
                problems, stats = lib.validate_traces("Trace_DedupeOps.tla", cfg, tf, max_problems=4)
                chk.cov["states"] += stats["states"]
                chk.cov["transitions"] += stats["generated"]
                for p in problems:
                    reset = p["run"][0] if p["run"] else {}
                    sig = f"op={op} nolock={nolock} plan={reset.get('plan_text')!r} scn={json.dumps(reset.get('scn'), sort_keys=True)}"
                    if p["kind"] == "invariant":
                        if p["name"] in prop_invariants:
                            chk.violation(f"{chk.pid}/{p['name']} {sig}", f"{p['name']} is false on the {'real end state' if mode == 'obs' else 'reconstructed state'} "
                                          f"({label}, mode {mode}, line {p['line']})", {"mode": mode, "problem": p})
                        else:
                            chk.cov.setdefault("other_property_findings", []).append(f"{p['name']} {sig}")
                    else:
                        chk.divergences += 1
                        with open(os.path.join(lib.VERIF, "replays", f"{chk.pid}-divergence-{chk.divergences}.json"), "w") as df:
                            json.dump({"mode": mode, "problem": p}, df, indent=1)
                        print(f"DIVERGENCE property={chk.pid} mode={mode} {sig} line={p['line']} event={json.dumps(p['event'])[:300]}")
        chk.cov["traces_validated_against_impl"] += total
    finally:
        lib.rmtree(outdir)
    return total


STRACE_CALLS = "rename,renameat,renameat2,link,linkat,symlink,symlinkat,unlink,unlinkat,mkdir,mkdirat,rmdir"


def strace_crosscheck(scn):
    """Instrument check: the same run observed by the LD_PRELOAD interposer and by strace (ptrace, independent of symbol interposition)
    must show the same path-mutating system calls. Returns (ok, detail). None if strace cannot be used here."""
    work = lib.mkscratch("stx")
    tdir_outside = None
    try:
        root, members, tdir = materialize(scn, work)
        if tdir and not tdir.startswith(work):
            tdir_outside = tdir
        env = lib.base_env(work)
        env["RAYON_NUM_THREADS"] = str(scn.threads)
        rep = os.path.join(work, "report")
        g = lib.run_fclones(["group", "r", "-o", rep], work, env)
        if g.rc != 0:
            raise lib.ToolError("group failed in strace cross-check")
        logf = os.path.join(work, "shim.log")
        senv = lib.shim_env(env, log_path=logf, root=work + (":" + tdir if tdir_outside else ""))
        args = list(OPS[scn.op]) + ([tdir] if scn.op == "move" else [])
        stp = os.path.join(work, "st")
        with open(rep, "rb") as f:
            r = subprocess.run(["strace", "-ff", "-o", stp, "-e", "trace=" + STRACE_CALLS, "--", lib.FCLONES] + args, cwd=work, env=senv, stdin=f,
                               capture_output=True, timeout=120)
        if b"ptrace" in r.stderr and b"Operation not permitted" in r.stderr:
            return None, "ptrace not permitted"
        roots = [work] + ([tdir] if tdir_outside else [])
        under = lambda p: p is not None and any(os.path.normpath(p) == x or os.path.normpath(p).startswith(x + "/") for x in roots)
        seen_st = []
        for fn in os.listdir(work):
            if not fn.startswith("st."):
                continue
            for line in open(os.path.join(work, fn), errors="replace"):
                m = re.match(r"(\w+)\((.*)\)\s+= (-?\d+)", line)
                if not m:
                    continue
                name, argtxt, ret = m.group(1), m.group(2), int(m.group(3))
                paths = [bytes(x, "latin-1").decode("unicode_escape").encode("latin-1").decode("utf-8", "surrogateescape") for x in re.findall(r'"((?:[^"\\]|\\.)*)"', argtxt)]
                paths = [p if os.path.isabs(p) else os.path.join(work, p) for p in paths]
                cls = {"renameat": "rename", "renameat2": "rename", "linkat": "link", "symlinkat": "symlink", "unlinkat": "unlink", "mkdirat": "mkdir"}.get(name, name)
                if name == "unlinkat" and "AT_REMOVEDIR" in argtxt:
                    cls = "rmdir"
                if cls == "symlink":
                    paths = [paths[-1]]                   # the target text is not a path of the tree
                if any(under(p) for p in paths):
                    seen_st.append((cls, tuple(os.path.normpath(p) for p in paths), ret >= 0))
        seen_sh = []
        for e in lib.read_shim_log(logf):
            if e["call"] in ("rename", "link", "symlink", "unlink", "mkdir", "rmdir") and e.get("inj", 0) == 0:
                ps = [e.get("p1")] if e["call"] in ("unlink", "mkdir", "rmdir") else ([e.get("p1")] if e["call"] == "symlink" else [e.get("p1"), e.get("p2")])
                seen_sh.append((e["call"], tuple(os.path.normpath(p) for p in ps if p), e["ret"] >= 0))
        a, b = sorted(seen_st), sorted(seen_sh)
        if a != b:
            return False, {"only_strace": [x for x in a if x not in b][:5], "only_interposer": [x for x in b if x not in a][:5], "strace": len(a), "interposer": len(b)}
        return True, {"calls": len(a)}
    finally:
        lib.rmtree(work)
        if tdir_outside:
            lib.rmtree(tdir_outside)
