"""C10: reports round-trip losslessly from `group` to the dedupe commands."""
import itertools
import json
import os
import random
import subprocess
import sys

import lib

ALPHA = [b" ", b"\t", b"\n", b"'", b'"', b"\\", b"$", b"#", b"*", b"\xff", " ".encode(), "　".encode(), "ż".encode(), b"x", b"\r", b"~"]


def names(maxlen):
    out = []
    for k in range(1, maxlen + 1):
        for w in itertools.product(ALPHA, repeat=k):
            out.append(b"".join(w))
    return out


def mk_report(rid, fmt, group_paths, args, base_dir, cuts=None, ts_ms=1700000000123, offset=3600):
    groups = []
    for i, paths in enumerate(group_paths):
        # hashes of 128, 256 and 512 bits (metro / sha256 / sha512), by turns
        hexlen = (32, 64, 128)[(rid + i) % 3]
        groups.append({"len": 100 - i, "hash": ("%032x" % (0xabcdef00 + i)).rjust(hexlen, "9"), "paths": [p.hex() for p in paths]})
    total = sum(len(p) for p in group_paths)
    return {"id": rid, "fmt": fmt, "ts_ms": ts_ms, "offset": offset, "command": [a.hex() for a in args], "base_dir": base_dir.hex(), "groups": groups,
            "stats": [len(groups), total, total * 100, max(total - len(groups), 0), 77, 0, 0], "cuts": cuts or []}


def main(tier):
    chk = lib.Check("C10", tier)
    thorough = tier == "thorough"
    chk.assumptions = ["the fidelity of the STFU-8 escaping is decided by executing the real encoder/decoder on the enumerated inputs (the specification supplies the reader state machine and the enumeration)",
                       "`rejected`: the reader returns an error and never delivers the cut group or a path that is not in the original report; groups complete before the cut may be delivered"]
    for ng, np_ in ((2, 2), (3, 3)) if thorough else ((2, 2),):
        cfg = os.path.join(lib.BUILD, f"ReportFmt_{ng}_{np_}.cfg")
        with open(cfg, "w") as f:
            f.write(f"CONSTANTS\n  NGroups = {ng}\n  NPaths = {np_}\n  StrictEol = TRUE\nSPECIFICATION Spec\nINVARIANTS DeliveredAreOriginal CutIsRejected RoundTrip\nCHECK_DEADLOCK FALSE\n")
        res = lib.run_tlc("ReportFmt.tla", cfg, workers=2, timeout=600)
        chk.add_tlc(f"ReportFmt[{ng}x{np_}]", res)
        if res.violation:
            chk.violation(f"C10/model {res.violation}", "the reader state machine delivers something that is not in the report", {"tlc": res.output[-2000:]})
    lib.build_all()
    rng = random.Random(chk.seed + 10)
    nm = names(3 if thorough else 2)
    cases = []
    rid = 0
    # every troublesome name as the last component of a path, the first component of an argument, and of the base dir
    for n in nm:
        for fmt in ("text", "json"):
            rid += 1
            p1 = b"/d/" + n
            p2 = b"/d/" + n + b"x"
            cases.append(mk_report(rid, fmt, [[p1, p2], [b"/e/" + n + b"/f", b"/e/y" + n]], [b"fclones", b"group", n, b"x" + n], b"/base/" + n, cuts=None))
    # random long names
    for _ in range(400 if thorough else 60):
        rid += 1
        # components "." and ".." are not generated: a report never contains them (paths are normalised by the walk)
        comp = lambda: (lambda c: b"_" + c if c in (b".", b"..") else c)(
            bytes(rng.choice([rng.randrange(1, 256), rng.choice(b" \t\n'\"\\$#*~")]) for _ in range(rng.randint(1, 30))).replace(b"/", b"_").replace(b"\0", b"_"))
        mkname = lambda: b"/" + b"/".join(comp() for _ in range(rng.randint(1, 3)))
        cases.append(mk_report(rid, rng.choice(["text", "json"]), [[mkname() for _ in range(rng.randint(2, 4))] for _ in range(rng.randint(1, 3))],
                               [b"fclones", b"group"] + [mkname()[1:] for _ in range(rng.randint(0, 3))], mkname()))
    # groups far larger than any buffer or pre-allocation guard of the readers
    for fmt in ("text", "json"):
        for npaths in (1024, 1025, 3000):
            rid += 1
            cases.append(mk_report(rid, fmt, [[b"/big/f%05d" % i for i in range(npaths)], [b"/after/a", b"/after/b"]], [b"fclones", b"group", b"big"], b"/base"))
    # truncation: every byte prefix of a few reports
    cutcases = []
    for fmt in ("text", "json"):
        for paths in ([[b"/t/aa", b"/t/aa2"], [b"/t/b", b"/t/bb"]], [[b"/t/x y ", b"/t/x y"], [b"/u/n\nl", b"/u/q'"]]):
            rid += 1
            cutcases.append(mk_report(rid, fmt, paths, [b"fclones", b"group", b"."], b"/t", cuts="all"))
    work = lib.mkscratch("c10")
    try:
        fin, fout = os.path.join(work, "in.ndjson"), os.path.join(work, "out.ndjson")
        allc = cases + cutcases
        with open(fin, "w") as f:
            for c in allc:
                f.write(json.dumps(c) + "\n")
        r = subprocess.run([lib.HARNESS, "report", fin, fout], capture_output=True, text=True, timeout=3000)
        if r.returncode != 0:
            raise lib.ToolError("harness report failed: " + r.stderr[-1500:])
        byid = {c["id"]: c for c in allc}
        nontrivial = 0
        ncuts = 0
        for line in open(fout):
            o = json.loads(line)
            c = byid[o["id"]]
            last = bytes.fromhex(c["groups"][0]["paths"][0])[-6:]
            sig = f"fmt={c['fmt']} name={last!r}"
            if o.get("panic"):
                chk.violation(f"C10/panic {sig}", "writing or reading the report panicked", {"case": c})
                continue
            b = o["back"]
            if "header_err" in b:
                chk.violation(f"C10/header-rejected {sig}", "the reader rejects the header of a report written by the writer: " + b["header_err"], {"case": c, "written": bytes.fromhex(o["written"]).decode("utf-8", "replace")[:600]})
                continue
            nontrivial += 1
            problems = []
            if b["ts_ms"] != c["ts_ms"]:
                problems.append(("timestamp", f"{b['ts_ms']} != {c['ts_ms']}"))
            if b["command"] != c["command"]:
                problems.append(("command", f"{b['command']} != {c['command']}"))
            if b["base_dir"] != c["base_dir"]:
                problems.append(("base-dir", f"{bytes.fromhex(b['base_dir'])!r} != {bytes.fromhex(c['base_dir'])!r}"))
            if b["stats"] != c["stats"]:
                problems.append(("stats", f"{b['stats']} != {c['stats']}"))
            if b.get("err"):
                problems.append(("groups-error", b["err"]))
            got = [(g["len"], g["hash"], g["paths"]) for g in b["groups"]]
            exp = [(g["len"], g["hash"], g["paths"]) for g in c["groups"]]
            if got != exp and not b.get("err"):
                problems.append(("groups", "the groups read back differ from the groups written"))
            for what, detail in problems:
                chk.violation(f"C10/roundtrip-{what} {sig}", f"{what} does not survive the round trip: {detail}", {"case": c, "back": b})
            # truncation
            allpaths = [g["paths"] for g in c["groups"]]
            for cut in o.get("cuts", []):
                ncuts += 1
                delivered = [g["paths"] for g in cut.get("groups", [])]
                # never a group that is not a complete group of the original, in order
                if delivered != allpaths[:len(delivered)]:
                    chk.violation(f"C10/truncated-group-delivered fmt={c['fmt']}", f"a report cut at byte {cut['at']} delivers {delivered} (original groups {allpaths})", {"case": c, "cut": cut})
                    break
                written = bytes.fromhex(o["written"])
                total = len(written)
                if len(delivered) < len(allpaths) and "header_err" not in cut and not cut.get("err"):
                    # fewer groups and no error: acceptable only if the cut is not inside a group
                    if c["fmt"] == "text":
                        lines = written.split(b"\n")
                        starts, off, k = [], 0, 0
                        for i, ln in enumerate(lines):
                            if i >= 7 and k == 0 and ln:
                                starts.append(off)
                                k = len(allpaths[len(starts) - 1]) + 1
                            if k:
                                k -= 1
                            off += len(ln) + 1
                        inside = cut["at"] > starts[0] and cut["at"] not in starts
                    else:
                        inside = True
                    if inside:
                        chk.violation(f"C10/cut-not-rejected fmt={c['fmt']}", f"a report cut at byte {cut['at']} of {total} inside a group is accepted without an error", {"case": c, "cut": cut})
                        break
        # end to end: prefixes of a real report fed to `fclones remove --dry-run`
        import c11
        base = os.path.join(work, "e2e")
        for d, n in (("g1", ("a", "b b", "c'")), ("g2", ("x", "xx", "x y "))):
            for nme in n:
                lib.write_file(os.path.join(base, d, nme), (d * 50).encode())
        env = lib.base_env(work)
        e2e = 0
        for fmt in ("default", "json"):
            g = lib.run_fclones(["group", "e2e", "-f", fmt], work, env)
            rep = g.out
            orig = {os.path.join(base, d, nme) for d, n in (("g1", ("a", "b b", "c'")), ("g2", ("x", "xx", "x y "))) for nme in n}
            cuts = sorted(set(range(0, len(rep), 5)) | {len(rep) - k for k in range(1, 12)})
            def feed(at):
                r = lib.run_fclones(["remove", "--dry-run"], work, env, stdin=rep[:at])
                ops, _, _ = c11.bash_ops(r.out, work) if r.out.strip() else ([], 0, "")
                return at, r.rc, [op[1] for op in ops if len(op) > 1]
            for at, rc, targets in lib.pmap(feed, cuts, workers=12):
                e2e += 1
                foreign = [t for t in targets if t not in orig]
                if foreign:
                    chk.violation(f"C10/e2e-foreign-path fmt={fmt}", f"a report cut at byte {at} makes `remove --dry-run` print a command for {foreign[:2]}, which is not a path of the report", {"at": at, "report": rep[:at].decode("utf-8", "replace")[-300:]})
                    break
            full = lib.run_fclones(["remove", "--dry-run"], work, env, stdin=rep)
            if full.rc != 0 or full.out.count(b"rm ") != 4:
                chk.violation(f"C10/e2e-complete-report fmt={fmt}", f"the complete report is not processed as expected (rc={full.rc})", {"stderr": full.err.decode('utf-8', 'replace')[-300:]})
        chk.cov["e2e_truncations"] = e2e
        chk.cov["evaluations"] = len(allc) + ncuts
        chk.cov["traces_validated_against_impl"] = len(allc)
        chk.cov["truncation_points"] = ncuts
        chk.cov["distinct_nontrivial"] = nontrivial
        chk.cov["rule"] = (f"every string of length <= {3 if thorough else 2} over 16 troublesome bytes/characters used as a file name, as command arguments and in the base directory, in both formats, "
                           "written by the real ReportWriter and read by the real open_report / read_header / read_groups; seeded random long names; every byte prefix of four reports fed to "
                           "the readers; non-trivial = report whose header was read back")
        chk.sample({"written": bytes.fromhex(json.loads(open(fout).readline())["written"]).decode("utf-8", "replace")[:500]})
    finally:
        lib.rmtree(work)
    return chk.finish()


if __name__ == "__main__":
    try:
        sys.exit(main(sys.argv[1] if len(sys.argv) > 1 else "quick"))
    except lib.ToolError as e:
        print("TOOL-ERROR", e, file=sys.stderr)
        sys.exit(2)
