"""C09: the concurrent walk (WalkConc.tla) model-checked by TLC - on hand-written trees with two differently ruled routes, link cycles
and links out of the roots, and on the small trees of the real runs of this check."""
import json
import os

import lib

CFG = "CONSTANTS\n  CaseSet <- {cases}\n  KeyByCtx = {key}\nSPECIFICATION WSpec\nINVARIANTS Confluent NeverTooMuch\nPROPERTY Terminates\nCHECK_DEADLOCK FALSE\n"


def run(chk, cases, max_entries):
    """cases: the case records given to Eval_Walk. Returns the number of observed trees explored."""
    def tlc(module, name, caseset, key, env=None, workers=4):
        cfg = os.path.join(lib.BUILD, f"WalkConc_{name}.cfg")
        with open(cfg, "w") as f:
            f.write(CFG.format(cases=caseset, key=key))
        return lib.run_tlc(module, cfg, workers=workers, timeout=1500, env=env, coverage=False)

    res = tlc("MC_WalkConc.tla", "hand_ctx", "HandCases", "TRUE")
    chk.add_tlc("MC_WalkConc(hand-written trees, visits keyed by path and ignore files: every schedule)", res)
    if res.violation:
        chk.violation(f"C09/model {res.violation}", "WalkConc.tla: the concurrent walk keyed by (path, ignore files in effect) depends on the schedule", {"tlc": res.output[-2500:]})
        return 0
    # the specification must be able to tell the difference: the keying of the code before fix 3489b31 loses files on these trees
    old = tlc("MC_WalkConc.tla", "hand_path", "RacyCases", "FALSE")
    chk.add_tlc("MC_WalkConc(the same trees, visits keyed by path alone: must be refuted)", old)
    if old.violation != "Confluent":
        raise lib.ToolError(f"vacuity: WalkConc.tla does not refute the path-only keying (got {old.violation})")
    follow = [c for c in cases if c["opts"]["follow"] and c["opts"]["depth"] == -1]
    # every schedule on the small trees (the state space grows exponentially with the width of the tree) ...
    obs = [c for c in follow if len(c["entries"]) <= max_entries][:60]
    # ... random schedules on the others
    big = [c for c in follow if max_entries < len(c["entries"]) <= 40][:150]
    d = lib.mkscratch("wco", base=lib.BUILD)
    try:
        n = 0
        if obs:
            cf = os.path.join(d, "cases.ndjson")
            with open(cf, "w") as f:
                for c in obs:
                    f.write(json.dumps(c) + "\n")
            res = tlc("Obs_WalkConc.tla", "obs", "ObsCases", "TRUE", env={"CASES": cf}, workers=8)
            chk.add_tlc(f"Obs_WalkConc({len(obs)} observed trees of <= {max_entries} entries with --follow-links: every schedule)", res)
            if res.violation:
                chk.violation(f"C09/model-on-observed-tree {res.violation}", "WalkConc.tla: on a tree of a real run the concurrent walk depends on the schedule", {"tlc": res.output[-2500:]})
            n += len(obs)
        if big:
            cf = os.path.join(d, "big.ndjson")
            with open(cf, "w") as f:
                for c in big:
                    f.write(json.dumps(c) + "\n")
            cfg = os.path.join(lib.BUILD, "WalkConc_sim.cfg")
            with open(cfg, "w") as f:
                f.write("CONSTANTS\n  CaseSet <- ObsCases\n  KeyByCtx = TRUE\nINIT WInit\nNEXT WNext\nINVARIANTS Confluent NeverTooMuch\nCHECK_DEADLOCK FALSE\n")
            res = lib.run_tlc("Obs_WalkConc.tla", cfg, workers=4, timeout=900, env={"CASES": cf}, coverage=False, simulate=1000, depth=400)
            chk.add_tlc(f"Obs_WalkConc({len(big)} larger observed trees: 1000 random schedules)", res)
            if res.violation:
                chk.violation(f"C09/model-on-observed-tree {res.violation}", "WalkConc.tla: on a tree of a real run a sampled schedule of the concurrent walk ends with another selection", {"tlc": res.output[-2500:]})
            n += len(big)
        return n
    finally:
        lib.rmtree(d)
