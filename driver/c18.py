"""C18: `move` maps sources injectively and never overwrites."""
import os
import sys

import dops
import lib

PROP_INVS = {"ObsAtomic", "ObsOutside", "ObsRetained", "ObsRestored", "NoOverwrite", "SourceLast", "Atomic", "ObsCount"}


def main(tier):
    chk = lib.Check("C18", tier)
    thorough = tier == "thorough"
    chk.assumptions = ["expected target = DIR/<absolute source path without the root>, computed by the driver from the documentation",
                       "other device = ext4 /var/tmp vs tmpfs /dev/shm (the rename fails with EXDEV naturally)"]
    for collision in ("TRUE", "FALSE"):
        for nolock in ("FALSE", "TRUE"):
            cfg = os.path.join(lib.BUILD, f"MC_DedupeOps_c18_{collision}_{nolock}.cfg")
            with open(cfg, "w") as f:
                f.write(f'CONSTANTS\n  Op = "move"\n  NoLock = {nolock}\n  MaxFaults = 2\n  Collision = {collision}\n  SameIno = FALSE\n  TruncOnOpen = FALSE\n'
                        "SPECIFICATION Spec\nINVARIANTS NoOverwrite SourceLast Atomic RetainedUntouched OthersUntouched FailedRestored SucceededReplaced CollisionKept HappyPath\nCHECK_DEADLOCK FALSE\n")
            res = lib.run_tlc("MC_DedupeOps.tla", cfg, workers=4, timeout=600)
            chk.add_tlc(f"MC_DedupeOps[move,collision={collision},nolock={nolock}]", res)
            if res.violation:
                chk.violation(f"C18/model {res.violation}", "the specification violates " + res.violation, {"tlc": res.output[-2500:]})
    lib.build_all()
    scns = []
    hostile = [["a", "n\udcff", "n\udcfe"], ["a", "x y", "x  y"], ["a", "q'\n", "q'"], ["a", "ż", "z"]]
    for tdev in ("same", "other"):
        for collision in (None, "file", "dir", "parentfile"):
            scns.append(dops.Scn("move", tdev=tdev, collision=collision, size=70000 if tdev == "other" else 3000))
        scns.append(dops.Scn("move", tdev=tdev, reldir=(tdev == "same"), nfiles=4, threads=4, size=20000))
        for names in hostile:
            scns.append(dops.Scn("move", tdev=tdev, names=names, size=1000))
    scns.append(dops.Scn("move", label="dotdot"))
    scns.append(dops.Scn("move", tdev="other", label="dotdot", size=70000))
    scns.append(dops.Scn("move", tinside=True))
    scns.append(dops.Scn("move", tinside=True, collision="file"))
    scns.append(dops.Scn("move", nolock=True, collision="file"))
    cases = []
    for scn in scns:
        ev, facts = dops.run_case(scn)
        cases.append((scn, None, "none"))
        if scn.threads > 1 and scn.tdev == "other":
            # several workers moving into one new directory by copy: a single failure in one of them (the calls hit vary with the
            # interleaving; the end state is judged, and the trace whenever the specification can follow it)
            for k in range(1, facts["mut_positions"] + 1, 1 if thorough else 2):
                cases.append((scn, f"mut||{k}|fail={dops.ERRNOS['EIO']}", "fail1"))
        if scn.names or scn.threads > 1:
            continue
        errs = ["EIO", "ENOSPC", "EXDEV", "EPERM"] if thorough else ["EIO", "EXDEV"]
        for k in range(1, facts["mut_positions"] + 1):
            for e in errs:
                cases.append((scn, f"mut||{k}|fail={dops.ERRNOS[e]}", "fail1"))
            if thorough or scn.tdev == "other":
                cases.append((scn, f"mut||{k}|killafter", "kill"))
    lib.log(f"[C18] {len(cases)} runs")

    def one(c):
        scn, plan, cls = c
        ev, facts = dops.run_case(scn, plan, cls)
        return scn, ev, facts

    results = lib.pmap(one, cases, workers=12)
    runs = [(scn, ev) for scn, ev, _ in results]
    moved_by_copy = sum(1 for _, ev, _ in results for e in ev if e.get("call") == "copy" and e.get("ok"))
    refused = sum(1 for scn, ev, _ in results if scn.collision and ev[0]["plan"] == "none" and ev[-1]["processed"] < len(ev[0]["dropped"]))
    dops.validate(chk, runs, PROP_INVS, "move")
    chk.cov["evaluations"] = len(cases)
    chk.cov["distinct_nontrivial"] = len({(str(s.key()), p) for s, p, _ in cases})
    chk.cov["moved_by_copy"] = moved_by_copy
    chk.cov["collisions_refused"] = refused
    chk.cov["rule"] = ("one real run per (target on same/other device, inside/outside the tree, relative/absolute DIR, pre-existing file / directory / "
                       "file-at-parent at a target, hostile names incl. pairs differing only in invalid UTF-8 bytes, injected failure or kill at every mutating call)")
    chk.sample({"scenario": scns[1].key(), "events": [e for e in results[1][1] if e.get("ev") == "Call"][:14]})
    if (moved_by_copy == 0 or refused == 0) and not chk.violations:
        raise lib.ToolError("vacuity: copy path or collision path never exercised")
    return chk.finish()


if __name__ == "__main__":
    try:
        sys.exit(main(sys.argv[1] if len(sys.argv) > 1 else "quick"))
    except lib.ToolError as e:
        print("TOOL-ERROR", e, file=sys.stderr)
        sys.exit(2)
