"""C11: the dry-run script is exactly what a real run does."""
import json
import os
import random
import re
import subprocess
import sys

import c02
import dd
import lib

TRACER = r'''
__e(){ printf '%s\0' "$@"; printf '\n'; }
rm(){ __e rm "$@"; }; mv(){ __e mv "$@"; }; ln(){ __e ln "$@"; }; cp(){ __e cp "$@"; }
source "$1"
'''


def bash_ops(script_text, cwd):
    """The operations of a dry-run script exactly as bash parses them (the commands are replaced by printers)."""
    import tempfile
    fd, sp = tempfile.mkstemp(prefix="script_trace_", suffix=".sh", dir=cwd)
    with os.fdopen(fd, "wb") as f:
        f.write(script_text)
    r = subprocess.run(["bash", "-c", TRACER, "bash", sp], cwd=cwd, capture_output=True, timeout=60)
    ops = []
    for line in r.stdout.split(b"\0\n"):
        if line:
            ops.append([os.fsdecode(x) for x in line.split(b"\0")])
    os.remove(sp)
    return ops, r.returncode, r.stderr.decode("utf-8", "replace")[:300]


def big_case(seed, threads, op, tmpmark=""):
    """>= 60 groups so that the parallel producers and the reorder queue are exercised."""
    rng = random.Random(seed)
    groups = []
    for g in range(70):
        k = rng.randint(2, 3)
        groups.append({"files": [{"name": "g%02d_%d%s" % (g, i, rng.choice(["", " ", "'q"])), "root": rng.choice(c02.ROOTS), "nest": rng.randint(1, 2), "ino": i + 1}
                                 for i in range(k)], "links": [], "size": 20 + g})
    cfg = {"S": False, "I": False, "H": False, "rf_over": None, "fmt": rng.choice(["default", "json"]), "op": op, "cliN": rng.choice([0, 2]),
           "prios": rng.choice([[], ["top"]]), "pattern": "none", "threads": threads}
    return cfg, groups


def main(tier):
    chk = lib.Check("C11", tier)
    thorough = tier == "thorough"
    chk.assumptions = ["`same final tree` = equal inventories up to inode numbering and the random temporary names",
                       "the dry-run script is executed by /bin/bash on a restored copy (cp -a) of the tree the real run started from"]
    for skip, expect in (("{}", None), ("{2}", "AllPrinted")):
        cfg = os.path.join(lib.BUILD, f"LogScript_{len(skip)}.cfg")
        with open(cfg, "w") as f:
            f.write(f"CONSTANTS\n  N = {6 if thorough else 5}\n  Skip = {skip}\nSPECIFICATION Spec\nINVARIANTS InOrder AllPrinted\nCHECK_DEADLOCK FALSE\n")
        res = lib.run_tlc("LogScript.tla", cfg, workers=4, timeout=600)
        chk.add_tlc(f"LogScript[Skip={skip}]", res)
        if res.violation != expect:
            chk.violation(f"C11/model Skip={skip} {res.violation}", "the model of the dry-run printer does not behave as expected", {"tlc": res.output[-2000:]})
    lib.build_all()
    rng = random.Random(chk.seed + 11)
    n = 1500 if thorough else 320
    cases = []
    for k in range(1, n + 1):
        cfg, groups = c02.gen_tree(rng)
        cases.append((k, cfg, groups, rng.randint(0, 1 << 30)))
    for j, (threads, op) in enumerate([(1, "remove"), (2, "hard"), (16, "soft"), (16, "remove"), (2, "move")] * (3 if thorough else 1)):
        cfg, groups = big_case(chk.seed + j, threads, op)
        cases.append((n + 1 + j, cfg, groups, rng.randint(0, 1 << 30)))

    def one(t):
        thr = t[1].get("threads")
        if thr:
            os.environ.setdefault("X", "")
        return c02.run_one(t, want_c11=True)

    results = [r for r in lib.pmap(one, cases, workers=10) if r]
    nontrivial = set()
    for run, f in results:
        c = f["cfg"]
        flags = "".join(x for x in "SIH" if c[x])
        sig = f"op={c['op']} fmt={c['fmt']} flags={flags or '-'} n={c['cliN']}/{c['rf_over']} feat={'+'.join(f['feats']) or 'none'}"
        if f["processed"] > 0:
            nontrivial.add(json.dumps([c, f["paths"]], sort_keys=True))
        if f.get("dry_changed_tree"):
            chk.violation(f"C11/dry-run-modified-tree {sig}", "--dry-run changed the tree", f)
        if f["panicked"]:
            continue
        if f["warned"]:
            pass        # a command of the real run failed (e.g. no reflink support): the summaries are only promised equal when none fails
        elif f["dry_processed"] != f["processed"] or f["dry_summary"] != f["summary"]:
            chk.violation(f"C11/summary {sig}", f"dry run: {f['dry_processed']} files / {f['dry_summary']}; real run: {f['processed']} files / {f['summary']}", f)
        if c["op"] in ("remove", "hard", "soft") and not f["warned"] and not f.get("same_tree", True):
            chk.violation(f"C11/bash-tree {sig}", f"`bash script` (rc={f.get('bash_rc')}, {f.get('bash_err')!r}) gives another final tree than the real run", f)
    # script order = report order, and the operations name exactly the files the real run changed
    chk.cov["evaluations"] = len(results)
    chk.cov["traces_validated_against_impl"] = len(results)
    chk.cov["distinct_nontrivial"] = len(nontrivial)
    chk.cov["rule"] = ("the C02 scenario generator (hostile names, -S/-I/-H, text/JSON reports, 5 operations, option sets) plus trees of 70 groups with "
                       "RAYON_NUM_THREADS 1/2/16; for each: real run, restore, --dry-run, compare summaries, `bash script` on the restored tree for remove/link, "
                       "compare final trees; non-trivial = at least one file processed")
    if results:
        f0 = results[0][1]
        chk.sample({"dedupe": f0["dedupe_args"], "script": f0.get("script", "")[:600], "processed": f0["processed"], "dry_processed": f0.get("dry_processed")})
    return chk.finish()


if __name__ == "__main__":
    try:
        sys.exit(main(sys.argv[1] if len(sys.argv) > 1 else "quick"))
    except lib.ToolError as e:
        print("TOOL-ERROR", e, file=sys.stderr)
        sys.exit(2)
