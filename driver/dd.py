"""Engine for the group -> dedupe black-box checks (C08, C02, C11): seeded scenario trees, real `fclones group`,
cases evaluated by TLC on Partition.tla (the oracle), real dedupe commands, inventories."""
import json
import os
import random
import re
import shlex
import subprocess
import time

import lib

PRIOS = ["top", "bottom", "newest", "oldest", "most-recently-modified", "least-recently-modified", "most-recently-accessed",
         "least-recently-accessed", "most-recent-status-change", "least-recent-status-change", "most-nested", "least-nested"]
OPS = {"remove": ["remove"], "hard": ["link"], "soft": ["link", "--soft"], "reflink": ["dedupe"], "move": ["move"]}


def stfu8_decode(s):
    """Decoder of the STFU-8 escapes used in reports (\\\\, \\t, \\n, \\r, \\xHH, \\u{..}); returns bytes."""
    out = bytearray()
    i = 0
    while i < len(s):
        c = s[i]
        if c != "\\":
            out += c.encode("utf-8", "surrogatepass")
            i += 1
            continue
        n = s[i + 1]
        if n == "\\":
            out += b"\\"; i += 2
        elif n == "t":
            out += b"\t"; i += 2
        elif n == "n":
            out += b"\n"; i += 2
        elif n == "r":
            out += b"\r"; i += 2
        elif n == "x":
            out.append(int(s[i + 2:i + 4], 16)); i += 4
        elif n == "u":
            j = s.index("}", i)
            cp = int(s[i + 3:j], 16)
            out += chr(cp).encode("utf-8", "surrogatepass"); i = j + 1
        else:
            raise ValueError("bad stfu8 escape in %r" % s)
    return bytes(out)


def gen_group(rng, cfg, k=None, distinct=False):
    """Random attributes of the files of one duplicate group. Files that end up in one sub-group (same inode, or same
    effective isolate root) or share an inode get equal times and depth: the property leaves open whether a sub-group
    is ranked by its oldest or newest / deepest or shallowest member, and hard links share their times anyway."""
    k = k or rng.choice([2, 3, 3, 4, 4, 5])
    nin = rng.randint(1, k)
    files = [{"ino": rng.randint(1, nin), "root": rng.choice([0, 1, 2]), "kp": rng.random() < 0.25, "dp": rng.random() < 0.6} for _ in range(k)]
    if distinct:
        for i, f in enumerate(files):
            f["ino"] = i + 1
    roots_on = cfg["isolate"] or cfg["cliRoots"]
    parent = list(range(k))

    def find(x):
        while parent[x] != x:
            parent[x] = parent[parent[x]]
            x = parent[x]
        return x
    for i in range(k):
        for j in range(i):
            same_ino = files[i]["ino"] == files[j]["ino"]
            ri = files[i]["root"] if (cfg["cliRoots"] or files[i]["root"]) else (3 if cfg["isolate"] else 0)
            rj = files[j]["root"] if (cfg["cliRoots"] or files[j]["root"]) else (3 if cfg["isolate"] else 0)
            if same_ino or (roots_on and ri == rj and ri != 0):
                parent[find(i)] = find(j)
    cls = {}
    for i in range(k):
        a = cls.setdefault(find(i), {"mt": rng.randint(1, 3), "at": rng.randint(1, 3), "nest": rng.randint(1, 2)})
        files[i].update(a)
    return files


def gen_config(rng):
    cfg = {"isolate": rng.random() < 0.35, "links": rng.random() < 0.25, "rf_over": rng.choice([None, None, 1, 2]),
           "cliN": rng.choice([0, 0, 1, 2, 3]), "cliRoots": rng.random() < 0.2, "cliLinks": rng.random() < 0.15,
           "prios": [], "patterns": rng.choice(["none", "none", "keep-name", "keep-path", "name", "path", "keep+drop"])}
    r = rng.random()
    if r < 0.45:
        cfg["prios"] = [rng.choice(PRIOS)]
    elif r < 0.8:
        cfg["prios"] = [rng.choice(PRIOS), rng.choice(PRIOS)]
    elif r < 0.85:
        cfg["prios"] = [rng.choice(PRIOS) for _ in range(3)]
    return cfg


class Tree:
    """Materialised scenario: base/R1 base/R2 base/O, one main group + an unrelated pair + a unique file."""

    def __init__(self, files, cfg, seed, names=None, size=None):
        self.files, self.cfg, self.seed = files, cfg, seed
        self.work = lib.mkscratch("dd")
        self.base = os.path.join(self.work, "b")
        rng = random.Random(seed)
        self.size = size or rng.choice([10, 700, 5000])
        self.paths = []
        os.makedirs(self.base)
        for d in ("R1", "R2", "O"):
            os.makedirs(os.path.join(self.base, d, "s"), exist_ok=True)
        data = lib.hashlib.sha256(str(seed).encode()).digest() * (self.size // 32 + 1)
        data = data[:self.size]
        first = {}
        order = sorted(range(len(files)), key=lambda i: files[i]["ino"])
        crank = {}
        for n, i in enumerate(order):
            f = files[i]
            d = os.path.join(self.base, ["O", "R1", "R2"][f["root"]])
            if f["nest"] == 2:
                d = os.path.join(d, "s")
            name = names[i] if names else ("k" if f["kp"] else "x") + ("d" if f["dp"] else "y") + str(i)
            p = os.path.join(d, name)
            if f["ino"] in first:
                os.link(first[f["ino"]], p)
            else:
                with open(p, "wb") as fh:
                    fh.write(data)
                first[f["ino"]] = p
                crank[f["ino"]] = len(crank) + 1
                time.sleep(0.012)          # distinct creation times (the file-system clock is coarse: one tick may be 4 ms)
            f["cr"] = crank[f["ino"]]
            self.paths.append((i, p))
        self.paths.sort()
        self.path_of = {i: p for i, p in self.paths}
        # unrelated content: another duplicate pair and a unique file (must stay untouched)
        lib.write_file(os.path.join(self.base, "O", "u1"), b"U" * 33)
        lib.write_file(os.path.join(self.base, "R1", "u2"), b"U" * 33)
        lib.write_file(os.path.join(self.base, "R2", "w"), b"W" * 21)

    def set_times(self):
        """mtime/atime by rank, then status-change order by a chmod per inode in a random order."""
        rng = random.Random(self.seed + 1)
        seen = {}
        for i, p in self.paths:
            f = self.files[i]
            if f["ino"] in seen:
                continue
            seen[f["ino"]] = p
            os.utime(p, (lib.OLD_MTIME + 1000 * f["at"], lib.OLD_MTIME + 1000 * f["mt"]))
        inos = list(seen)
        rng.shuffle(inos)
        for n, ino in enumerate(inos):
            os.chmod(seen[ino], 0o644)
            time.sleep(0.012)
            for f in self.files:
                if f["ino"] == ino:
                    f["ct"] = n + 1

    def group_args(self):
        c = self.cfg
        a = ["group", "R1", "R2", "O"]
        if c["isolate"]:
            a.append("--isolate")
        if c["links"]:
            a.append("--match-links")
        if c["rf_over"] is not None:
            a += ["--rf-over", str(c["rf_over"])]
        return a

    def dedupe_args(self, op="remove", extra=()):
        c = self.cfg
        a = list(OPS[op])
        if op == "move":
            a.append(os.path.join(self.work, "MV"))
        if c["cliN"]:
            a += ["-n", str(c["cliN"])]
        if c["cliRoots"]:
            a += ["--isolate", os.path.join(self.base, "R1"), "--isolate", os.path.join(self.base, "R2")]
        if c["cliLinks"]:
            a.append("--match-links")
        for p in c["prios"]:
            a += ["--priority", p]
        pat = c["patterns"]
        if pat in ("keep-name", "keep+drop"):
            a += ["--keep-name", "k*"]
        if pat == "keep-path":
            a += ["--keep-path", "**/k*"]
        if pat in ("name", "keep+drop"):
            a += ["--name", "?d*"]
        if pat == "path":
            a += ["--path", "**/?d*"]
        return a + list(extra)

    def case(self, cid, group_paths):
        """The abstract case of Partition.tla for the reported group (files in report order)."""
        c = self.cfg
        idx_of = {os.path.normpath(p): i for i, p in self.paths}
        files = []
        order = []
        for p in group_paths:
            i = idx_of[os.path.normpath(p)]
            order.append(i)
            f = self.files[i]
            root = f["root"]
            if c["isolate"] and not c["cliRoots"]:
                root = {0: 3, 1: 1, 2: 2}[f["root"]]        # inherited roots: every input path (R1, R2, O in this order) is a root
            files.append({"ino": f["ino"], "root": root, "mt": f["mt"], "at": f["at"], "cr": f["cr"], "ct": f["ct"], "nest": f["nest"] + 3,
                          "kp": f["kp"] and c["patterns"] in ("keep-name", "keep-path", "keep+drop"),
                          "dp": f["dp"]})
        hdr_n = 1 if c["rf_over"] is None else c["rf_over"]
        return order, {"id": cid, "files": files, "cliN": c["cliN"], "hdrN": hdr_n, "cliRoots": c["cliRoots"], "hdrIsolate": c["isolate"],
                       "cliLinks": c["cliLinks"], "hdrLinks": c["links"], "useDrop": c["patterns"] in ("name", "path", "keep+drop"),
                       "prios": c["prios"]}

    def cleanup(self):
        lib.rmtree(self.work)


def run_group(tree, fmt="json", extra=()):
    env = lib.base_env(tree.work)
    r = lib.run_fclones(tree.group_args() + ["-f", fmt] + list(extra), tree.base, env)
    return r


def parse_json_report(out):
    rep = json.loads(out.decode("utf-8"))
    groups = []
    for g in rep["groups"]:
        groups.append({"len": g["file_len"], "hash": g["file_hash"], "paths": [os.fsdecode(stfu8_decode(p)) for p in g["files"]]})
    return rep["header"], groups


def tlc_eval_partition(cases):
    """Evaluates Partition.tla (through Eval_Partition) on the cases; returns {id: result}."""
    if not cases:
        return {}
    d = lib.mkscratch("evp", base=lib.BUILD)
    try:
        cf, of = os.path.join(d, "cases.ndjson"), os.path.join(d, "out.ndjson")
        with open(cf, "w") as f:
            for c in cases:
                f.write(json.dumps(c) + "\n")
        res = lib.run_tlc("Eval_Partition.tla", "Eval_Partition.cfg", workers=1, timeout=1200, env={"CASES": cf, "OUT": of}, coverage=False, xss="512m")
        if not res.ok:
            raise lib.ToolError("Eval_Partition failed: " + res.output[-2000:])
        out = {}
        with open(of) as f:
            for line in f:
                r = json.loads(line)
                out[r["id"]] = r
        return out, res
    finally:
        lib.rmtree(d)
