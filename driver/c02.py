"""C02: deduplication never destroys the last copy of any content (also the engine of C11).

Seeded random trees (several groups, hard-link sets, symlinks reported with -S, --isolate roots, hostile file names),
both report formats, five operations; the C02 statements (spec/DedupeObs.tla) are evaluated by TLC on the observed
inventories."""
import json
import os
import random
import re
import shutil
import subprocess
import sys

import dd
import lib

NAMES = ["a", "b", "x", "x ", " lead", "t\tab", "n\nl", "q'uote", 'd"q', "back\\slash", "$var", "#hash", "st*r", "semi;colon",
         "nonutf\udcff", "nonutf\udcfe", "nbsp ", "ideo　", "ż", "trail ", "-dash", "~tilde", "a b  c", "e=q", "p|ipe", "cr\rx"]
ROOTS = ["R1", "R2", "O"]


def gen_tree(rng, hostile=True):
    cfg = {"S": rng.random() < 0.4, "I": rng.random() < 0.35, "H": False, "rf_over": rng.choice([None, None, 1, 2]),
           "fmt": rng.choice(["default", "json"]), "op": rng.choice(["remove", "hard", "soft", "reflink", "move"]),
           "cliN": rng.choice([0, 0, 0, 1, 2]), "prios": rng.choice([[], [], ["top"], ["newest"], ["least-nested", "bottom"], ["most-recently-modified"]]),
           "pattern": rng.choice(["none", "none", "none", "name"])}
    if not cfg["S"]:
        # hard links reported as duplicates: the path to replace can be the very inode of the retained one (more often with `dedupe`,
        # where cloning a file onto itself must fail without touching it)
        cfg["H"] = rng.random() < (0.5 if cfg["op"] == "reflink" else 0.2)
    groups = []
    used = set()
    for g in range(rng.randint(1, 3)):
        files = []
        k = rng.randint(2, 4)
        nin = rng.randint(1, k)
        for i in range(k):
            while True:
                name = rng.choice(NAMES) if hostile and rng.random() < 0.7 else "f%d%d" % (g, i)
                root = rng.choice(ROOTS)
                nest = rng.randint(1, 2)
                key = (root, nest, name)
                if key not in used:
                    used.add(key)
                    break
            files.append({"name": name, "root": root, "nest": nest, "ino": rng.randint(1, nin)})
        links = []
        if cfg["S"]:
            for _ in range(rng.randint(0, 2)):
                tgt = rng.randrange(k)
                while True:
                    key = (rng.choice(ROOTS), rng.randint(1, 2), "l%d%d" % (g, len(links)) + rng.choice(["", " ", "\udcff"]))
                    if key not in used:
                        used.add(key)
                        break
                # now and then a link to the previous link (a chain of relative links through another directory)
                via = 0 if links and rng.random() < 0.5 else None
                links.append({"root": key[0], "nest": key[1], "name": key[2], "target": links[0]["target"] if via is not None else tgt,
                              "relative": True if via is not None else rng.random() < 0.5, "via": via})
        if cfg["S"] and rng.random() < 0.5 and ("O", 1, "a-chain%d" % g) not in used:
            # a chain of relative links whose outer end sorts first in the group: the path a `link` command takes as its source
            used.add(("O", 1, "a-chain%d" % g))
            inner = len(links)
            links.append({"root": "R1", "nest": 2, "name": "inner%d" % g, "target": rng.randrange(k), "relative": True, "via": None})
            links.append({"root": "O", "nest": 1, "name": "a-chain%d" % g, "target": links[inner]["target"], "relative": True, "via": inner})
        groups.append({"files": files, "links": links, "size": rng.choice([7, 300, 4100])})
    return cfg, groups


class Tree:
    def __init__(self, cfg, groups, seed):
        self.cfg, self.groups, self.seed = cfg, groups, seed
        self.work = lib.mkscratch("c02")
        self.base = os.path.join(self.work, "b")
        for r in ROOTS:
            os.makedirs(os.path.join(self.base, r, "s"))
        self.mv = os.path.join(self.work, "MV")
        for gi, g in enumerate(groups):
            data = (("G%d-%d|" % (gi, seed)).encode() * (g["size"] // 4 + 2))[:g["size"]]
            first = {}
            g["paths"] = []
            for f in g["files"]:
                d = os.path.join(self.base, f["root"], "s" if f["nest"] == 2 else "")
                p = os.path.normpath(os.path.join(d, f["name"]))
                if f["ino"] in first:
                    os.link(first[f["ino"]], p)
                else:
                    lib.write_file(p, data, lib.OLD_MTIME + 10 * gi)
                    first[f["ino"]] = p
                g["paths"].append(p)
            lpaths = []
            for l in g["links"]:
                d = os.path.join(self.base, l["root"], "s" if l["nest"] == 2 else "")
                p = os.path.normpath(os.path.join(d, l["name"]))
                t = g["paths"][l["target"]] if l.get("via") is None else lpaths[l["via"]]
                lpaths.append(p)
                os.symlink(os.path.relpath(t, os.path.dirname(p)) if l["relative"] else t, p)
                os.utime(p, (lib.OLD_MTIME, lib.OLD_MTIME), follow_symlinks=False)
        # decoys: next to every member whose name ends or starts with white space, an unrelated file of the same length
        # whose name is the member's name without that white space
        for gi, g in enumerate(groups):
            for p in g["paths"]:
                d, n = os.path.dirname(p), os.path.basename(p)
                for cand in {n.strip(), n.rstrip(), n.lstrip()} - {n, ""}:
                    q = os.path.join(d, cand)
                    if not os.path.lexists(q):
                        lib.write_file(q, (("D%d|" % gi).encode() * (g["size"] // 3 + 2))[:g["size"]], lib.OLD_MTIME)
        # move: sometimes something already exists at the place a member would be moved to
        if cfg["op"] == "move" and seed % 3 == 0:
            for g in groups:
                victim = g["paths"][seed % len(g["paths"])]
                lib.write_file(os.path.normpath(self.mv + "/" + victim.lstrip("/")), b"pre-existing under the move target", lib.OLD_MTIME)
        lib.write_file(os.path.join(self.base, "R2", "unique"), b"unique-content")
        lib.write_file(os.path.join(self.base, "O", "unique2 "), b"another unique content")

    def group_args(self):
        c = self.cfg
        a = ["group", "R1", "R2", "O", "-f", c["fmt"]]
        if c["S"]:
            a.append("-S")
        if c["I"]:
            a.append("--isolate")
        if c["H"]:
            a.append("-H")
        if c["rf_over"] is not None:
            a += ["--rf-over", str(c["rf_over"])]
        return a

    def dedupe_args(self, extra=()):
        c = self.cfg
        a = list(dd.OPS[c["op"]])
        if c["op"] == "move":
            a.append(self.mv)
        if c["cliN"]:
            a += ["-n", str(c["cliN"])]
        for p in c["prios"]:
            a += ["--priority", p]
        if c["pattern"] == "name":
            a += ["--name", "[a-z]*"]
        return a + list(extra)

    def cleanup(self):
        lib.rmtree(self.work)


def entries(tree, inv, projector):
    out = []
    for rel, r in sorted(inv.items()):
        p = projector(os.path.normpath(os.path.join(tree.work, rel)))
        if r["t"] == "f":
            out.append({"p": p, "k": "file", "ino": r["ino"], "c": r["sha"] if r["len"] else "EMPTY", "mt": str(r["mtime"]), "to": ""})
        elif r["t"] == "l":
            out.append({"p": p, "k": "link", "ino": "", "c": "", "mt": str(r["mtime"]), "to": lib.printable(r["target"])})
        elif r["t"] == "d":
            out.append({"p": p, "k": "dir", "ino": "", "c": "", "mt": "", "to": ""})
        else:
            out.append({"p": p, "k": "other", "ino": "", "c": "", "mt": "", "to": ""})
    return out


def read_id(path):
    try:
        return lib.sha(path)
    except OSError:
        return "ERR"


def features(tree, groups_reported):
    c = tree.cfg
    feats = []
    allp = [p for g in groups_reported for p in g["paths"]]
    if c["fmt"] == "default" and any(re.search(r"\s$", os.path.basename(p)) for p in allp):
        feats.append("trailing-ws-name+text-report")
    if c["S"] and c["I"]:
        for p in allp:
            if os.path.islink(p):
                t = os.path.realpath(p)
                if os.path.relpath(p, tree.base).split("/")[0] != os.path.relpath(t, tree.base).split("/")[0]:
                    feats.append("reported-symlink-across-isolate-roots")
                    break
    if c["S"] and c["op"] in ("hard", "reflink") and any(os.path.islink(p) for p in allp):
        feats.append("link-op-on-reported-symlink")
    if c["S"] and c["op"] == "soft" and any(os.path.islink(p) for p in allp):
        feats.append("soft-link-op-on-reported-symlink")
    return feats


def run_one(t, want_c11=False):
    k, cfg, groups, seed = t
    tree = Tree(cfg, groups, seed)
    try:
        env = lib.base_env(tree.work)
        if cfg.get("threads"):
            env["RAYON_NUM_THREADS"] = str(cfg["threads"])
        g = lib.run_fclones(tree.group_args(), tree.base, env)
        if g.rc != 0:
            return None
        gj = lib.run_fclones([a if a != cfg["fmt"] else "json" for a in tree.group_args()], tree.base, env)
        hdr, reported = dd.parse_json_report(gj.out)
        if not reported:
            return None
        proj = lambda p: lib.printable(os.path.relpath(p, tree.work))
        inv0 = lib.inventory(tree.work, with_times=True)
        inv0 = {k: v for k, v in inv0.items() if k == "b" or k.startswith("b/") or k == "MV" or k.startswith("MV/")}
        feats = features(tree, reported)
        rgroups = []
        eff_roots = cfg["I"]
        for rg in reported:
            files = []
            for p in rg["paths"]:
                try:
                    st = os.stat(p)
                    ino = st.st_ino
                except OSError:
                    ino = -1
                root = (ROOTS.index(os.path.relpath(p, tree.base).split("/")[0]) + 1) if eff_roots else 0
                files.append({"ino": ino, "root": root, "mt": 1, "at": 1, "cr": 1, "ct": 1, "nest": 1, "kp": False, "dp": True})
            case = {"id": k, "files": files, "cliN": cfg["cliN"], "hdrN": 1 if cfg["rf_over"] is None else cfg["rf_over"], "cliRoots": False,
                    "hdrIsolate": cfg["I"], "cliLinks": False, "hdrLinks": cfg["H"], "useDrop": False, "prios": []}
            rgroups.append({"paths": [proj(p) for p in rg["paths"]], "case": case})
        reads0 = [{"f": proj(p), "v": read_id(p)} for rg in reported for p in rg["paths"]]
        backup = None
        if want_c11:
            backup = os.path.join(tree.work, "backup")
            os.makedirs(backup)
            subprocess.run(["cp", "-a", tree.base, os.path.join(backup, "b")], check=True)
            if os.path.exists(tree.mv):
                subprocess.run(["cp", "-a", tree.mv, os.path.join(backup, "MV")], check=True)
        dryfacts = {}
        if want_c11:
            # dry run first, on the very same tree (creation / status-change times would not survive a restore)
            d = lib.run_fclones(tree.dedupe_args(["--dry-run"]), tree.base, env, stdin=g.out, timeout=120)
            script = d.out
            md = re.search(rb"Would process (\d+) files and reclaim ([^\n]*) space", d.err)
            dryfacts["dry_processed"] = int(md.group(1)) if md else -1
            dryfacts["dry_summary"] = md.group(2).decode() if md else ""
            dryfacts["script"] = script.decode("utf-8", "replace")[:3000]
            invd = lib.inventory(tree.work, with_times=True)
            invd = {k: v for k, v in invd.items() if k == "b" or k.startswith("b/") or k == "MV" or k.startswith("MV/")}
            dryfacts["dry_changed_tree"] = shape(invd, with_mtime=True) != shape(inv0, with_mtime=True)
        # no file system of the sandbox can clone: `dedupe` runs with ioctl(FICLONE) emulated by the shim, in the order of the kernel's checks
        denv = lib.shim_env(env, root=tree.work, emuclone=True) if cfg["op"] == "reflink" else env
        r = lib.run_fclones(tree.dedupe_args(), tree.base, denv, stdin=g.out, timeout=120)
        inv1 = lib.inventory(tree.work, with_times=True)
        inv1 = {k: v for k, v in inv1.items() if k == "b" or k.startswith("b/") or k == "MV" or k.startswith("MV/")}
        reads1 = [{"f": proj(p), "v": read_id(p)} for rg in reported for p in rg["paths"]]
        moved = [{"f": proj(p), "v": read_id(os.path.normpath(tree.mv + "/" + p.lstrip("/")))} for rg in reported for p in rg["paths"]]
        run = {"id": k, "op": cfg["op"], "pre": entries(tree, inv0, proj), "post": entries(tree, inv1, proj), "groups": rgroups,
               "reads0": reads0, "reads1": reads1, "moved": moved,
               "mvfiles": sorted({v["sha"] for k2, v in inv1.items() if (k2.startswith("MV/")) and v["t"] == "f"})}
        m = re.search(rb"Processed (\d+) files and reclaimed ([^\n]*) space", r.err)
        facts = {"k": k, "cfg": cfg, "feats": feats, "rc": r.rc, "panicked": r.panicked, "stderr": r.err.decode("utf-8", "replace")[-800:],
                 "group_args": tree.group_args(), "dedupe_args": tree.dedupe_args(), "processed": int(m.group(1)) if m else -1,
                 "summary": m.group(2).decode() if m else "", "warned": b"warn" in r.err, "paths": [[lib.printable(os.path.relpath(p, tree.base)) for p in rg["paths"]] for rg in reported],
                 "changed": sorted(set(x["p"] for x in run["pre"]) - set(x["p"] for x in run["post"]))}
        facts.update(dryfacts)
        if want_c11:
            # restore the snapshot, execute the printed script with bash, compare the final trees
            shutil.rmtree(tree.base)
            subprocess.run(["cp", "-a", os.path.join(backup, "b"), tree.base], check=True)
            if os.path.exists(tree.mv):
                shutil.rmtree(tree.mv)
            if os.path.exists(os.path.join(backup, "MV")):
                subprocess.run(["cp", "-a", os.path.join(backup, "MV"), tree.mv], check=True)
            if cfg["op"] in ("remove", "hard", "soft"):
                sp = os.path.join(tree.work, "script.sh")
                with open(sp, "wb") as f:
                    f.write(script)
                b = subprocess.run(["bash", sp], cwd=tree.base, capture_output=True, timeout=120)
                facts["bash_rc"] = b.returncode
                facts["bash_err"] = b.stderr.decode("utf-8", "replace")[:500]
                inv2 = lib.inventory(tree.work)
                inv2 = {k: v for k, v in inv2.items() if k == "b" or k.startswith("b/")}
                facts["same_tree"] = shape(inv2) == shape({k: v for k, v in inv1.items() if k == "b" or k.startswith("b/")})
                if not facts["same_tree"]:
                    facts["tree_real"] = sorted(shape(inv1).items())[:40]
                    facts["tree_bash"] = sorted(shape(inv2).items())[:40]
        return run, facts
    finally:
        tree.cleanup()


def shape(inv, with_mtime=False):
    """Inventory up to inode numbering: path -> (type, content | target, hard-link class as the smallest path of the class)."""
    cls = {}
    for p, r in sorted(inv.items()):
        if r["t"] == "f":
            cls.setdefault(r["ino"], p)
    out = {}
    for p, r in inv.items():
        if TMPNAME.search(p):
            continue
        if r["t"] == "f":
            out[p] = ("f", r["sha"], cls[r["ino"]]) + ((r.get("mtime"),) if with_mtime else ())
        elif r["t"] == "l":
            out[p] = ("l", r["target"])
        else:
            out[p] = (r["t"],)
    return out


TMPNAME = re.compile(r"\.[A-Za-z0-9]{24}$")
PREDS = ["ContentKept", "ReplicasUntouched", "OutsideUntouched", "LinkOpsPreserveReads", "MoveKeepsBytes"]


def tlc_eval(runs):
    d = lib.mkscratch("evd", base=lib.BUILD)
    try:
        cf, of = os.path.join(d, "cases.ndjson"), os.path.join(d, "out.ndjson")
        with open(cf, "w") as f:
            for r in runs:
                f.write(json.dumps(r) + "\n")
        res = lib.run_tlc("Eval_DedupeObs.tla", "Eval_DedupeObs.cfg", workers=1, timeout=1800, env={"CASES": cf, "OUT": of}, coverage=False, xss="512m")
        if not res.ok:
            raise lib.ToolError("Eval_DedupeObs failed: " + res.output[-2500:])
        out = {}
        with open(of) as f:
            for line in f:
                v = json.loads(line)
                out[v["id"]] = v
        return out, res
    finally:
        lib.rmtree(d)


def main(tier):
    chk = lib.Check("C02", tier)
    thorough = tier == "thorough"
    chk.assumptions = ["content identity by SHA-256 of the bytes", "no file system of the sandbox supports reflinks: `dedupe` runs with ioctl(FICLONE) emulated by the LD_PRELOAD shim (kernel order of checks: EXDEV, EISDIR, EINVAL for non-regular files, 0 for an empty source, EINVAL for one inode, else the bytes of the source replace the start of the destination, which is never shrunk)",
                       "the documented-dangerous combination --match-links --symbolic-links is not generated"]
    # design level: group ; remove composed over a 4-path universe (Dedupe.tla), with the repair of partition() (Rescue): the file a
    # retained symbolic link resolves to is retained too.  Without it TLC must find the loss (-S --isolate, link in one root, target in the other)
    for across, rescue, must_hold in (("FALSE", "TRUE", True), ("TRUE", "TRUE", True), ("TRUE", "FALSE", False)):
        cfgp = os.path.join(lib.BUILD, f"Dedupe_{across}_{rescue}.cfg")
        with open(cfgp, "w") as f:
            f.write(f"CONSTANTS\n  SymlinksAcrossRoots = {across}\n  Rescue = {rescue}\nSPECIFICATION Spec\nINVARIANTS ContentKept NoDangling\nCHECK_DEADLOCK FALSE\n")
        res = lib.run_tlc("Dedupe.tla", cfgp, workers=8, timeout=900)
        chk.add_tlc(f"Dedupe[SymlinksAcrossRoots={across}, Rescue={rescue}]" + ("" if must_hold else " (the code before the repair: must be refuted)"), res)
        if must_hold and res.violation:
            chk.violation(f"C02/model {res.violation} across={across}", "group;remove loses content (or leaves a retained link dangling) in the composition model", {"tlc": res.output[-2500:]})
        if not must_hold and res.violation != "ContentKept":
            raise lib.ToolError(f"vacuity: Dedupe.tla does not refute the partition without the repair (got {res.violation})")
    lib.build_all()
    rng = random.Random(chk.seed)
    n = 2500 if thorough else 500
    cases = []
    for k in range(1, n + 1):
        cfg, groups = gen_tree(rng)
        cases.append((k, cfg, groups, rng.randint(0, 1 << 30)))
    results = [r for r in lib.pmap(run_one, cases, workers=12) if r]
    runs = [r for r, _ in results]
    facts = {f["k"]: f for _, f in results}
    verdicts, res = tlc_eval(runs)
    chk.add_tlc("Eval_DedupeObs(property predicates on observed runs)", res)
    nontrivial = set()
    for k, v in verdicts.items():
        f = facts[k]
        c = f["cfg"]
        flags = "".join(x for x in "SIH" if c[x])
        sig_tail = f"op={c['op']} fmt={c['fmt']} flags={flags or '-'} n={c['cliN']}/{c['rf_over']} feat={'+'.join(f['feats']) or 'none'}"
        if f["changed"]:
            nontrivial.add(json.dumps([c, f["paths"]], sort_keys=True))
        if f["panicked"]:
            chk.violation(f"C02/panic {sig_tail}", "the dedupe command panicked: " + f["stderr"][-300:], f)
        for pred in PREDS:
            if not v[pred]:
                chk.violation(f"C02/{pred} {sig_tail}", f"{pred} is false on the observed run (group {f['group_args']}, dedupe {f['dedupe_args']})",
                              {"facts": f, "verdict": v})
    chk.cov["evaluations"] = len(runs)
    chk.cov["traces_validated_against_impl"] = len(runs)
    chk.cov["distinct_nontrivial"] = len(nontrivial)
    chk.cov["rule"] = ("seeded random trees: 1-3 groups of 2-4 files in 3 roots, hard-link sets, relative/absolute symlinks reported with -S, --isolate, --match-links, "
                       "hostile names (leading/trailing blanks of several kinds, tab, newline, CR, quotes, backslash, $, #, *, non-UTF-8, NBSP, ideographic space), "
                       "text and JSON reports, 5 operations, -n, priorities, a drop pattern; non-trivial = distinct scenario in which the command changed something")
    if results:
        f0 = results[0][1]
        chk.sample({"group": f0["group_args"], "dedupe": f0["dedupe_args"], "reported": f0["paths"], "changed": f0["changed"]})
    return chk.finish()


if __name__ == "__main__":
    try:
        sys.exit(main(sys.argv[1] if len(sys.argv) > 1 else "quick"))
    except lib.ToolError as e:
        print("TOOL-ERROR", e, file=sys.stderr)
        sys.exit(2)
