"""C13: results are deterministic and independent of performance settings; every run terminates."""
import itertools
import json
import os
import random
import sys

import gg
import lib

THREADS = [["1"], ["2"], ["16"], ["64"], ["0"], ["main:1"], ["main:2"], ["main:0"], ["default:1"], ["default:1,1"], ["default:0"], ["ssd:1,1"], ["ssd:2,1"],
           ["hdd:1,2"], ["unknown:3,1"], ["unknown:0"], ["ssd:0"], ["main:1", "default:1,1"], ["1,0"], ["0,1"]]
RUN_TIMEOUT = 60


def body(out):
    return b"\n".join(l for l in out.split(b"\n") if not l.startswith(b"#"))


def partition(out):
    _, groups = gg.parse_text_report(out)
    return sorted((g["len"], tuple(sorted(g["paths"]))) for g in groups)


def one(t):
    k, files, seed, thorough = t
    rng = random.Random(seed)
    tree = gg.Tree(files, seed)
    res = {"k": k, "problems": [], "runs": 0, "traces": []}
    try:
        isolate = k % 4 == 0
        base_cfg = {"symlinks": k % 3 == 0, "isolate": isolate, "rf_over": rng.choice([None, 0, 1])}

        def run(cfg, label, disk=None, stdin_paths=None, trace=False, roots=None):
            c = dict(base_cfg)
            c.update(cfg)
            if roots:
                c["roots"] = roots
            env = tree.env(disk_kind=disk, trace=os.path.join(tree.work, f"trace{res['runs']}.ndjson") if trace else None)
            args = gg.group_args(c, "default")
            sin = None
            if stdin_paths is not None:
                args = [a for a in args if a not in gg.ROOTS] + ["--stdin"]
                sin = "\n".join(stdin_paths).encode() + b"\n"
            r = lib.run_fclones(args, tree.base, env, stdin=sin, timeout=RUN_TIMEOUT)
            res["runs"] += 1
            if r.timed_out:
                res["problems"].append(("hang", label, " ".join(args), "did not terminate within %d s" % RUN_TIMEOUT))
                return None
            if r.rc != 0:
                res["problems"].append(("no-report", label, " ".join(args), r.err.decode("utf-8", "replace")[-300:]))
                return None
            if trace:
                tf = env["FCLONES_VERIF_TRACE"]
                if os.path.exists(tf):
                    with open(tf) as f:
                        res["traces"].append(f.read())
            return r.out

        b0 = run({}, "base", trace=True)
        if b0 is None:
            return res
        body0, part0 = body(b0), partition(b0)
        res["groups"] = len(part0)
        # repeated runs and thread-pool settings: byte-identical body
        for i in range(6 if thorough else 3):
            o = run({}, "repeat", trace=(i == 0))
            if o is not None and body(o) != body0:
                res["problems"].append(("body-differs", "repeat", "same command", diff(body0, body(o))))
        for th in (THREADS if thorough else rng.sample(THREADS, 6)):
            o = run({"threads": th}, "threads", disk=rng.choice([None, "ssd", "hdd", "unknown"]) if False else None, trace=(th == ["1"]))
            if o is not None and body(o) != body0:
                res["problems"].append(("body-differs", "threads=" + ",".join(th), "", diff(body0, body(o))))
        # order of the input paths / --stdin
        perms = list(itertools.permutations(gg.ROOTS))[1:]
        for p in (perms if thorough else rng.sample(perms, 2)):
            o = run({}, "roots-permuted", roots=list(p))
            if o is None:
                continue
            if not isolate and body(o) != body0:
                res["problems"].append(("body-differs", "roots=" + " ".join(p), "", diff(body0, body(o))))
            if isolate and partition(o) != part0:
                res["problems"].append(("partition-differs", "roots=" + " ".join(p) + " --isolate", "", "groups differ"))
        if not isolate:
            # repeated / nested roots select the same files: same body, whatever the pools
            overlaps = [gg.ROOTS + gg.ROOTS, ["R1", "R1/s", "R2", "O", "R2/s/t"], ["O", "R2", "R1", "O/s", "R1"]]
            for ov in (overlaps if thorough else rng.sample(overlaps, 2)):
                for th in ([["1"], ["16"], ["default:4,4"]] if thorough else [rng.choice([["1"], ["16"], ["default:4,4"]])]):
                    o = run({"threads": th}, "roots-overlap", roots=ov)
                    if o is not None and body(o) != body0:
                        res["problems"].append(("body-differs", "roots=" + " ".join(ov) + " threads=" + ",".join(th), "", diff(body0, body(o))))
            allfiles = sorted(os.path.relpath(tree.path[f["id"]], tree.base) for f in tree.files)
            rng.shuffle(allfiles)
            o = run({}, "stdin", stdin_paths=allfiles)
            if o is not None and body(o) != body0:
                res["problems"].append(("body-differs", "--stdin", "", diff(body0, body(o))))
        # hash function, prefix/suffix sizes, device type, cache: identical partition
        variations = [({"hash_fn": h}, None) for h in gg.HASH_FNS[1:]] + [({"max_prefix": v}, None) for v in (1, 4096, 8192, 100000)] + \
                     [({"max_suffix": v}, None) for v in (1, 512, 16384, 200000)] + [({}, d) for d in ("ssd", "hdd", "unknown")] + \
                     [({"cache": True}, None), ({"cache": True}, "ssd"), ({"max_prefix": 512, "max_suffix": 200000, "hash_fn": "blake3"}, "ssd")]
        for cfg, disk in (variations if thorough else rng.sample(variations, 8)):
            o = run(cfg, "config", disk=disk)
            if o is not None and partition(o) != part0:
                res["problems"].append(("partition-differs", json.dumps(cfg) + " disk=" + str(disk), "", "groups differ"))
        return res
    finally:
        tree.cleanup()


def many_links(files, k):
    """Every fifth tree: one file gets 20 more hard links - more paths of one identity than a small pool has throttle permits."""
    if k % 5 == 0:
        base = next(f for f in files if f["hardlink_of"] is None and f["symlink_to"] is None)
        fid = max(f["id"] for f in files) + 1
        for i in range(20):
            files.append(dict(base, id=fid + i, name="hl%d" % (fid + i), sub=["", "s", "s/t"][i % 3], root=gg.ROOTS[i % 3], hardlink_of=base["id"], symlink_to=None))
    return files


def diff(a, b):
    la, lb = a.split(b"\n"), b.split(b"\n")
    for i, (x, y) in enumerate(zip(la, lb)):
        if x != y:
            return f"first difference at line {i + 1}: {x[:120]!r} vs {y[:120]!r}"
    return f"lengths differ: {len(la)} vs {len(lb)} lines"


def main(tier):
    chk = lib.Check("C13", tier)
    thorough = tier == "thorough"
    chk.assumptions = ["real schedules are sampled (the exhaustive exploration of interleavings is on Rehash.tla)", "a run that does not end within 60 s (normal: 50 ms) does not terminate",
                       "with --isolate the order of the roots may change the order of paths (C14): only the groups are compared there"]
    for name, pool, factor, openl in (("pool1", "MCPool1", 1, 1), ("pool2", "MCPool2", 1, 1), ("pool2f2", "MCPool2", 2, 2)) + ((("pool1f2", "MCPool1", 2, 1),) if thorough else ()):
        cfg = os.path.join(lib.BUILD, f"MC_Rehash_{name}.cfg")
        with open(cfg, "w") as f:
            f.write(f'CONSTANTS\n  Devices = {{"d1", "d2"}}\n  NRuns <- MCNRuns\n  RunSize = 2\n  Pool <- {pool}\n  Factor = {factor}\n  OpenLimit = {openl}\n  FailSet <- MCFail\n  PermitsPerTask = 1\n'
                    "SPECIFICATION Spec\nINVARIANTS Bounded OpenBounded Confluent NoDeadlock\nPROPERTY Termination\nCHECK_DEADLOCK FALSE\n")
        res = lib.run_tlc("MC_Rehash.tla", cfg, workers=8, timeout=1500)
        chk.add_tlc(f"MC_Rehash[{name}]", res)
        if res.violation:
            chk.violation(f"C13/model {name} {res.violation}", "Rehash.tla violates " + res.violation, {"tlc": res.output[-2500:]})
    # the model must be able to see a hang: one throttle permit per PATH of a run (2) with a single permit (Factor 1 x pool 1)
    cfg = os.path.join(lib.BUILD, "MC_Rehash_perpath.cfg")
    with open(cfg, "w") as f:
        f.write('CONSTANTS\n  Devices = {"d1", "d2"}\n  NRuns <- MCNRuns\n  RunSize = 2\n  Pool <- MCPool1\n  Factor = 1\n  OpenLimit = 1\n  FailSet <- MCFail\n  PermitsPerTask = 2\n'
                "SPECIFICATION Spec\nINVARIANTS Bounded OpenBounded Confluent NoDeadlock\nPROPERTY Termination\nCHECK_DEADLOCK FALSE\n")
    res = lib.run_tlc("MC_Rehash.tla", cfg, workers=2, timeout=600, coverage=False)
    chk.add_tlc("MC_Rehash[one permit per path, 1 permit: must be refuted]", res)
    if res.violation not in ("NoDeadlock", "Termination"):
        raise lib.ToolError(f"vacuity: Rehash.tla does not refute the per-path throttle (got {res.violation})")
    lib.build_all()
    rng = random.Random(chk.seed + 13)
    n = 150 if thorough else 36
    cases = [(k, many_links(gg.gen_tree(rng, nclasses=rng.randint(3, 6)), k), rng.randint(0, 1 << 30), thorough) for k in range(1, n + 1)]
    results = lib.pmap(one, cases, workers=8)
    total_runs = sum(r["runs"] for r in results)
    # hook traces of real rehash invocations
    tdir = lib.mkscratch("c13t")
    try:
        tf = os.path.join(tdir, "rehash.ndjson")
        ntr = 0
        with open(tf, "w") as f:
            for r in results:
                for t in r["traces"]:
                    f.write('{"ev":"Reset"}\n')
                    f.write(t)
                    ntr += 1
        if ntr:
            problems, stats = lib.validate_traces("Trace_Rehash.tla", "Trace_Rehash.cfg", tf, max_problems=3)
            chk.cov["states"] += stats["states"]
            chk.cov["transitions"] += stats["generated"]
            chk.cov["traces_validated_against_impl"] = ntr
            chk.cov["trace_events"] = stats["events"]
            for p in problems:
                if p["kind"] == "invariant":
                    chk.violation(f"C13/trace {p['name']}", f"{p['name']} false on a recorded rehash execution (line {p['line']})", {"problem": {k: v for k, v in p.items() if k != 'run'}})
                else:
                    chk.divergences += 1
                    print(f"DIVERGENCE property=C13 line={p['line']} event={json.dumps(p['event'])[:200]}")
        # the rehash invocations made by the repository's own unit tests
        import utrace
        evs, summary = utrace.record(timeout=300)
        if evs is None:
            print(f"NOTE property=C13 unit-test traces not available: {summary}")
        else:
            uf = os.path.join(tdir, "ut_rehash.ndjson")
            with open(uf, "w") as f:
                f.write('{"ev":"Reset"}\n')
                for e in evs:
                    if e["ev"] in ("RehashStart", "DeviceStart", "TaskSpawn", "TaskStart", "TaskDone", "CollectorEnd"):
                        f.write(json.dumps(e) + "\n")
            problems, stats = lib.validate_traces("Trace_Rehash.tla", "Trace_Rehash.cfg", uf, max_problems=3)
            chk.cov["states"] += stats["states"]
            chk.cov["transitions"] += stats["generated"]
            chk.cov["unit_test_traces"] = {"tests": summary, "rehash_events": stats["events"], "rehash_invocations": sum(1 for e in evs if e["ev"] == "RehashStart"),
                                           "problems": len(problems)}
            for p in problems:
                if p["kind"] == "invariant":
                    chk.violation(f"C13/unit-test-trace {p['name']}", f"{p['name']} false on a rehash execution of the repository's unit tests (line {p['line']})",
                                  {"problem": {k: v for k, v in p.items() if k != 'run'}})
                else:
                    chk.divergences += 1
                    print(f"DIVERGENCE property=C13 unit-test trace line={p['line']} event={json.dumps(p['event'])[:200]}")
    finally:
        lib.rmtree(tdir)
    nontrivial = 0
    for r in results:
        if r.get("groups"):
            nontrivial += 1
        for kind, label, args, detail in r["problems"]:
            cls = "max-suffix-size-exceeds-file-length" if (kind == "no-report" and "max_suffix" in label and "200000" in label) else kind
            chk.violation(f"C13/{kind} {label}" if kind != "no-report" else f"C13/no-report class={cls} {label}", f"{detail} ({args})", r["problems"][:5])
    chk.cov["evaluations"] = total_runs
    chk.cov["distinct_nontrivial"] = nontrivial
    chk.cov["rule"] = ("per seeded tree: base run, repeated runs, thread-pool specifications (main/default/per device type, sizes 0,1,2,3,16,64, r,s pairs), permutations of the roots, "
                       "--stdin (byte-identical report bodies), and hash function / prefix / suffix / device type / cache variations (identical partitions), every run under a 60 s bound; "
                       "non-trivial = tree with at least one reported group")
    chk.sample({"tree_files": len(cases[0][1]), "variations_per_tree": results[0]["runs"], "groups": results[0].get("groups")})
    return chk.finish()


if __name__ == "__main__":
    try:
        sys.exit(main(sys.argv[1] if len(sys.argv) > 1 else "quick"))
    except lib.ToolError as e:
        print("TOOL-ERROR", e, file=sys.stderr)
        sys.exit(2)
