"""C17: shell quoting of paths and arguments is lossless."""
import itertools
import json
import os
import random
import subprocess
import sys

import lib

SYM = {"a": b"a", "sp": b" ", "tab": b"\t", "nl": b"\n", "sq": b"'", "dq": b'"', "bs": b"\\", "dollar": b"$", "hash": b"#", "tilde": b"~", "star": b"*", "eq": b"=",
       "c01": b"\x01", "del": b"\x7f", "zdot": "ż".encode(), "fffd": "\ufffd".encode(), "xff": b"\xff", "smalltilde": "\u02dc".encode(), "excl": b"!", "semi": b";",
       "nbsp": "\u00a0".encode(), "ideosp": "\u3000".encode(),
       "pipe": b"|", "amp": b"&", "lt": b"<", "gt": b">", "lp": b"(", "rp": b")", "bq": b"`", "qm": b"?", "lb": b"[", "rb": b"]",
       "lbrace": b"{", "rbrace": b"}", "plus": b"+", "pct": b"%", "comma": b",", "dot": b".", "one": b"1",
       "trunc4": b"\xf0\x9f\x98", "trunc3": b"\xe2\x82"}
BRACE = ["lbrace", "rbrace", "comma", "dot", "a", "one"]          # BraceSyms of MC_ShellWords.tla
ORDER = sorted(SYM)


def bash_decode(lines, workdir):
    """Each line is shell text of one argument list; returns for each the list of byte strings bash passes to printf (None on a syntax error)."""
    out = []
    B = 200
    for i in range(0, len(lines), B):
        chunk = lines[i:i + B]
        res = run_bash(chunk, workdir)
        if res is None:
            res = []
            for l in chunk:
                r = run_bash([l], workdir)
                res.append(r[0] if r else None)
        out += res
    return out


def run_bash(lines, workdir):
    # files that the patterns ?, ?? and [a] would expand to if they were printed unquoted
    for n_ in ("a", "aa", "aaa"):
        if not os.path.exists(os.path.join(workdir, n_)):
            open(os.path.join(workdir, n_), "w").close()
    sp = os.path.join(workdir, "q.sh")
    with open(sp, "wb") as f:
        for l in lines:
            f.write(b"printf '%s\\0' " + l + b"\nprintf '\\0\\0'\n")
    env = {"PATH": "/usr/bin:/bin", "HOME": "/nonexistent-home", "LC_ALL": "C"}
    r = subprocess.run(["bash", sp], cwd=workdir, env=env, capture_output=True, timeout=120)
    if r.returncode != 0 or r.stderr:
        return None
    recs = r.stdout.split(b"\0\0\0")
    if recs and recs[-1] == b"":
        recs.pop()
    if len(recs) != len(lines):
        return None
    return [x.split(b"\0") for x in recs]


def main(tier):
    chk = lib.Check("C17", tier)
    thorough = tier == "thorough"
    chk.assumptions = ["bash 5.2 of the sandbox, run non-interactively in a directory that holds only the files a, aa, aaa (so that an unquoted ?, ?? or [a] is expanded) with HOME=/nonexistent-home",
                       "arguments are non-empty and contain no NUL"]
    cfg = os.path.join(lib.BUILD, "MC_ShellWords_run.cfg")
    with open(cfg, "w") as f:
        f.write(f"CONSTANT MaxLen = {4 if thorough else 3}\nCONSTANT Alphabet <- Syms\nSPECIFICATION Spec\nINVARIANT QuoteIsLossless\nCHECK_DEADLOCK FALSE\n")
    res = lib.run_tlc("MC_ShellWords.tla", cfg, workers=8, timeout=1500)
    chk.add_tlc("MC_ShellWords(QuoteIsLossless, all symbols)", res)
    if res.violation:
        w = lib.re.findall(r'^w = (<<.*>>)$', res.output, lib.re.M)
        chk.violation(f"C17/model word={w[-1] if w else '?'}", "ShellWords.tla: the quoting style chosen by `quote` is not lossless for this word under bash's rules", {"tlc": res.output[-1500:]})
    # brace expansion needs longer words ({a..a}, {1,a}): every word of up to 6 (7) symbols over the brace material
    blen = 7 if thorough else 6
    for name, extra, want in (("brace", "", None), ("brace_nobrace", "CONSTANT CodeSpecial <- NoBraceSpecial\n", "QuoteIsLossless")):
        with open(cfg, "w") as f:
            f.write(f"CONSTANT MaxLen = {blen}\nCONSTANT Alphabet <- BraceSyms\n{extra}SPECIFICATION Spec\nINVARIANT QuoteIsLossless\nCHECK_DEADLOCK FALSE\n")
        res = lib.run_tlc("MC_ShellWords.tla", cfg, workers=8, timeout=1500)
        chk.add_tlc(f"MC_ShellWords(QuoteIsLossless, brace material, length <= {blen}" + (", braces not special to the code: must be refuted)" if want else ")"), res)
        if want and res.violation != want:
            raise lib.ToolError(f"vacuity: ShellWords.tla does not refute a `quote` that leaves braces bare (got {res.violation})")
        if not want and res.violation:
            w = lib.re.findall(r'^w = (<<.*>>)$', res.output, lib.re.M)
            chk.violation(f"C17/model word={w[-1] if w else '?'}", "ShellWords.tla: the quoting style chosen by `quote` is not lossless for this word under bash's rules", {"tlc": res.output[-1500:]})
    lib.build_all()
    n = 4 if thorough else 3
    lists = []
    for k in range(1, n + 1):
        for w in itertools.product(ORDER, repeat=k):
            lists.append([b"".join(SYM[s] for s in w)])
    for k in range(n + 1, blen + 1):
        for w in itertools.product(BRACE, repeat=k):
            lists.append([b"".join(SYM[s] for s in w)])
    sub = ["a", "sp", "sq", "bs", "nl", "zdot", "xff", "tilde"]
    for k in (2, 3):
        for ws in itertools.product([b"".join(SYM[s] for s in w) for r in (1, 2 if thorough else 1) for w in itertools.product(sub, repeat=r)], repeat=k):
            lists.append(list(ws))
    rng = random.Random(chk.seed)
    for _ in range(2000 if thorough else 300):
        lists.append([bytes(rng.choice([rng.randrange(1, 256), ord(rng.choice(" '\"\\$#~*\n\t")), 0xC5]) for _ in range(rng.randint(5, 60))) for _ in range(rng.randint(1, 3))])
    work = lib.mkscratch("c17")
    try:
        fin, fout = os.path.join(work, "in.ndjson"), os.path.join(work, "out.ndjson")
        with open(fin, "w") as f:
            for i, l in enumerate(lists):
                f.write(json.dumps({"id": i, "args": [w.hex() for w in l]}) + "\n")
        r = subprocess.run([lib.HARNESS, "quote", fin, fout], capture_output=True, text=True, timeout=3000)
        if r.returncode != 0:
            raise lib.ToolError("harness quote failed: " + r.stderr[-1500:])
        outs = [json.loads(l) for l in open(fout)]
        lines = [bytes.fromhex(o["line"]) if "line" in o else b"''" for o in outs]
        bash = bash_decode(lines, work)
        nontrivial = 0
        for o, l, b in zip(outs, lists, bash):
            desc = " ".join(repr(w)[1:] for w in l)[:80]
            has_multibyte = any(any(c >= 0x80 for c in w) for w in l)
            if o.get("panic"):
                chk.violation(f"C17/split-panic class={'multibyte-in-dollar-quote' if has_multibyte else 'other'} args={desc}", "fclones' own splitter panicked on the line it printed", {"args": [w.hex() for w in l]})
                continue
            line = bytes.fromhex(o["line"])
            if line != b" ".join(l):
                nontrivial += 1
            if "err" in o or [bytes.fromhex(x) for x in o.get("split", [])] != l:
                chk.violation(f"C17/split-mismatch class={'multibyte-in-dollar-quote' if has_multibyte else 'other'} args={desc}",
                              f"fclones' splitter does not return the arguments from {line!r}: {o.get('err') or o.get('split')}", {"args": [w.hex() for w in l], "line": o["line"]})
            if b != l:
                cls = "leading-tilde" if any(w.startswith(b"~") for w in l) else "other"
                chk.violation(f"C17/bash-mismatch class={cls} args={desc}", f"bash decodes {line!r} as {b!r}", {"args": [w.hex() for w in l], "line": o["line"]})
        chk.cov["evaluations"] = len(lists)
        chk.cov["traces_validated_against_impl"] = len(lists)
        chk.cov["distinct_nontrivial"] = nontrivial
        chk.cov["rule"] = (f"all words of length <= {n} over the {len(SYM)}-symbol alphabet of ShellWords.tla, all words of length <= {blen} over the brace material {{ }} , . a 1, all lists of 2-3 words over an 8-symbol sub-alphabet, seeded random long byte strings; "
                           "each goes through the real join -> split and through real bash; non-trivial = the printed form differs from the raw bytes (quoting was needed)")
        chk.sample({"args": [w.hex() for w in lists[len(lists) // 3]], "printed": bytes.fromhex(outs[len(lists) // 3].get("line", "")).decode("utf-8", "replace")})
    finally:
        lib.rmtree(work)
    return chk.finish()


if __name__ == "__main__":
    try:
        sys.exit(main(sys.argv[1] if len(sys.argv) > 1 else "quick"))
    except lib.ToolError as e:
        print("TOOL-ERROR", e, file=sys.stderr)
        sys.exit(2)
