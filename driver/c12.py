"""C12: the hash cache never changes results."""
import json
import os
import random
import sys

import c13
import gg
import lib

CONFIGS = [{}, {"hash_fn": "blake3"}, {"hash_fn": "sha256"}, {"max_prefix": 512}, {"max_prefix": 100000}, {"max_suffix": 512}, {"max_suffix": 16384},
           {"transform_cmd": "head -c 100"}, {"transform_cmd": "head -c 7"}, {"transform_cmd": "tail -c +17"}, {"transform_cmd": "tail -c +9"},
           {"transform_cmd": "head -c 100", "hash_fn": "blake3"}, {"rf_over": 0}, {"unique": True},
           {"transform_cmd": "vt_part"}, {"transform_cmd": "vt_part"}]        # vt_part: writes the first 50 bytes and fails (exit 3)
DISKS = [None, "ssd", "hdd"]
MS = 1_000_000


class History:
    def __init__(self, k, seed, base_dir):
        self.k, self.rng = k, random.Random(seed)
        self.work = lib.mkscratch("c12", base=base_dir)
        self.base = os.path.join(self.work, "b")
        os.makedirs(os.path.join(self.base, "d1"))
        os.makedirs(os.path.join(self.base, "d2"))
        os.makedirs(os.path.join(self.work, "bin"))
        with open(os.path.join(self.work, "bin", "vt_part"), "w") as f:
            f.write("#!/bin/sh\nhead -c 50\nexit 3\n")
        os.chmod(os.path.join(self.work, "bin", "vt_part"), 0o755)
        self.now_ms = lib.OLD_MTIME * 1000
        self.seen = {}          # (st_ino) -> {(mtime_ms, len): digest}   the precondition: content is a function of (mtime ms, length)
        self.files = []
        self.n = 0
        self.log = []
        rng = self.rng
        blocks = [bytes([rng.randrange(256)]) * 20000 for _ in range(3)]
        self.blocks = blocks
        for i in range(rng.randint(4, 7)):
            self.create(os.path.join(self.base, rng.choice(["d1", "d2"]), "f%d" % self.n), self.content())

    def content(self):
        rng = self.rng
        kind = rng.randrange(4)
        if kind == 0:
            return self.blocks[0] + self.blocks[1] + self.blocks[2] + b"X" * rng.choice([0, 0, 1, 5000])
        if kind == 1:      # same prefix and suffix, different middle
            return self.blocks[0] + bytes([rng.randrange(256)]) * 20000 + self.blocks[2]
        if kind == 2:      # small
            return bytes([rng.randrange(4)]) * rng.choice([10, 200, 4096, 5000])
        return self.blocks[0] + self.blocks[1] + bytes([rng.randrange(256)]) * 20000

    def stamp(self, path, data, mtime_ms):
        """Sets the mtime so that (mtime ms, len) identifies the content of this inode over the whole history."""
        ino = os.stat(path).st_ino
        d = lib.hashlib.sha256(data).hexdigest()
        seen = self.seen.setdefault(ino, {})
        while seen.get((mtime_ms, len(data)), d) != d:
            mtime_ms += 1
        seen[(mtime_ms, len(data))] = d
        os.utime(path, ns=(mtime_ms * MS, mtime_ms * MS))
        self.now_ms = max(self.now_ms, mtime_ms)

    def create(self, path, data):
        with open(path, "wb") as f:
            f.write(data)
        self.now_ms += 1
        self.stamp(path, data, self.now_ms)
        self.files.append(path)
        self.n += 1

    def edit(self):
        rng = self.rng
        kind = rng.choice(["create", "modify", "modify", "modify-1ms", "other-len-keep-mtime", "older-mtime", "append", "truncate", "rename", "recreate", "recreate",
                           "hardlink", "swap", "delete"])
        live = [p for p in self.files if os.path.exists(p)]
        if not live:
            kind = "create"
        p = rng.choice(live) if live else None
        self.log.append(kind)
        if kind == "create":
            self.create(os.path.join(self.base, rng.choice(["d1", "d2"]), "f%d" % self.n), self.content())
        elif kind in ("modify", "modify-1ms"):
            old = open(p, "rb").read()
            new = bytes((b + 1) % 256 for b in old[:1]) + old[1:] if rng.random() < 0.5 else old[:-1] + bytes([(old[-1] + 1) % 256]) if old else b"z"
            if rng.random() < 0.3 and len(old) > 30000:
                new = old[:25000] + bytes([(old[25000] + 7) % 256]) + old[25001:]
            with open(p, "r+b") as f:
                f.write(new)
            cur = os.stat(p).st_mtime_ns // MS
            self.stamp(p, new, (max(self.now_ms, cur) + 1) if kind == "modify" else int(os.stat(p).st_mtime_ns // MS) + 1)
        elif kind == "other-len-keep-mtime":
            mt = None
            old = open(p, "rb").read()
            st = os.stat(p)
            new = old + b"+"
            with open(p, "wb") as f:
                f.write(new)
            self.stamp(p, new, self.mtime_before(st))
        elif kind == "older-mtime":
            old = open(p, "rb").read()
            st = os.stat(p)
            new = bytes([(old[0] + 3) % 256]) + old[1:] if old else b"q"
            with open(p, "r+b") as f:
                f.write(new)
            self.stamp(p, new, self.mtime_before(st) - 5)
        elif kind == "append":
            with open(p, "ab") as f:
                f.write(b"tail")
            self.now_ms += 1
            self.stamp(p, open(p, "rb").read(), self.now_ms)
        elif kind == "truncate":
            data = open(p, "rb").read()
            data = data[:max(1, len(data) // 2)]
            with open(p, "wb") as f:
                f.write(data)
            self.now_ms += 1
            self.stamp(p, data, self.now_ms)
        elif kind == "rename":
            q = os.path.join(self.base, rng.choice(["d1", "d2"]), "r%d" % self.n)
            self.n += 1
            os.rename(p, q)
            self.files.append(q)
        elif kind == "recreate":
            # delete and create another file right away: the inode number may be reused; same length, same or other content
            old = open(p, "rb").read()
            os.remove(p)
            new = self.content()
            if rng.random() < 0.6:
                new = (new * (len(old) // max(len(new), 1) + 1))[:len(old)] or b"n"
            self.create(os.path.join(os.path.dirname(p), "n%d" % self.n), new)
        elif kind == "hardlink":
            q = os.path.join(self.base, rng.choice(["d1", "d2"]), "h%d" % self.n)
            self.n += 1
            os.link(p, q)
            self.files.append(q)
        elif kind == "swap":
            q = rng.choice(live)
            a, b = open(p, "rb").read(), open(q, "rb").read()
            if os.stat(p).st_ino != os.stat(q).st_ino:
                for path, data in ((p, b), (q, a)):
                    with open(path, "wb") as f:
                        f.write(data)
                    self.now_ms += 1
                    self.stamp(path, data, self.now_ms)
        elif kind == "delete":
            os.remove(p)

    def mtime_before(self, st):
        return st.st_mtime_ns // MS

    def cleanup(self):
        lib.rmtree(self.work)


def group_args(cfg, cache):
    c = {k: v for k, v in cfg.items() if k != "transform_cmd"}
    c["roots"] = ["b"]
    a = gg.group_args(c, "default")
    if cfg.get("transform_cmd"):
        a += ["--transform", cfg["transform_cmd"]]
    if cache:
        a.append("--cache")
    return a


def snapshot(h, classes):
    """The tree as Trace_Cache sees it: per path identity, modification time (ms since the driver's epoch), length, content class."""
    files = []
    for root, _, names in os.walk(h.base):
        for n in sorted(names):
            p = os.path.join(root, n)
            st = os.stat(p)
            with open(p, "rb") as f:
                d = lib.hashlib.sha256(f.read()).hexdigest()
            files.append({"p": os.path.relpath(p, h.base), "ino": "%d:%d" % (st.st_dev, st.st_ino), "mt": int(st.st_mtime_ns // MS - lib.OLD_MTIME * 1000),
                          "len": st.st_size, "cls": classes.setdefault(d, len(classes) + 1)})
    return files


def cache_events(h, trace):
    evs = []
    if not os.path.exists(trace):
        return evs
    for line in open(trace):
        if '"CacheLookup"' in line or '"CacheStore"' in line:
            e = json.loads(line)
            rel = os.path.relpath(os.fsdecode(e["path"].encode("latin-1")), h.base)
            o = {"ev": e["ev"], "p": rel, "pos": e["pos"], "len": e["len"]}
            if e["ev"] == "CacheLookup":
                o["hit"] = e["hit"]
            else:
                o["hash"] = e["hash"]
            evs.append(o)
    return evs


def run_history(t):
    k, seed, steps, base_dir = t
    h = History(k, seed, base_dir)
    out = {"k": k, "steps": [], "problems": [], "hits": 0, "lookups": 0, "compared": 0, "trace": [{"ev": "Reset", "k": k}], "trace_steps": 0}
    classes = {}
    exact = True                   # no interrupted run so far: the specification knows every entry of the cache
    try:
        rng = random.Random(seed + 1)
        for s in range(steps):
            if s > 0:
                for _ in range(rng.randint(1, 3)):
                    h.edit()
            cfg = dict(rng.choice(CONFIGS))
            disk = rng.choice(DISKS)
            trace = os.path.join(h.work, f"trace{s}.ndjson")
            env = lib.base_env(h.work, disk_kind=disk)
            envc = lib.base_env(h.work, disk_kind=disk, trace=trace)
            for e_ in (env, envc):
                e_["PATH"] = os.path.join(h.work, "bin") + ":" + e_["PATH"]
            if rng.random() < 0.2:
                # an interrupted cached run first: it may leave any subset of its entries behind
                senv = lib.shim_env(envc, root=h.base, plan=f"read||{rng.randint(1, 6)}|killafter")
                lib.run_fclones(group_args(cfg, True), h.work, senv, timeout=60)
                exact = False          # whatever the killed run stored may or may not have reached the disk
                if os.path.exists(trace):
                    os.remove(trace)
            snap = snapshot(h, classes) if exact else None
            rc = lib.run_fclones(group_args(cfg, True), h.work, envc, timeout=60)
            ru = lib.run_fclones(group_args(cfg, False), h.work, env, timeout=60)
            if exact and rc.rc == 0:
                out["trace"].append({"ev": "Run", "k": k, "step": s, "table": "%s|%s" % (cfg.get("hash_fn", "metro"), cfg.get("transform_cmd", "")), "files": snap,
                                     "edits": h.log[:], "cfg": cfg})
                out["trace"] += cache_events(h, trace)
                out["trace_steps"] += 1
            elif rc.rc != 0:
                exact = False
            step = {"edits": h.log[:], "cfg": cfg, "disk": disk, "rc": (rc.rc, ru.rc)}
            h.log.clear()
            out["steps"].append(step)
            if os.path.exists(trace):
                for line in open(trace):
                    if '"CacheLookup"' in line:
                        out["lookups"] += 1
                        if '"hit":true' in line:
                            out["hits"] += 1
            if rc.rc != ru.rc:
                out["problems"].append((s, "exit status differs", f"cached {rc.rc} / uncached {ru.rc}: {rc.err.decode('utf-8', 'replace')[-200:]}"))
                break
            if rc.rc == 0:
                out["compared"] += 1
                if c13.body(rc.out) != c13.body(ru.out):
                    out["problems"].append((s, "report differs", c13.diff(c13.body(ru.out), c13.body(rc.out))))
                    break
        return out
    finally:
        h.cleanup()


def main(tier):
    chk = lib.Check("C12", tier)
    thorough = tier == "thorough"
    chk.assumptions = ["precondition read as: over the whole history the content of a file (inode) is a function of its (modification time in ms, length) - "
                       "two mtime-preserving edits that return to an earlier (mtime, length) with other content are outside the property",
                       "mtimes are set explicitly by the driver (exactly +1 ms, older values, kept with another length)"]
    cfg = os.path.join(lib.BUILD, "Cache_run.cfg")
    with open(cfg, "w") as f:
        f.write('CONSTANTS\n  Inodes = {1, 2}\n  Tables = {%s}\n  MaxSteps = %d\nSPECIFICATION Spec\nINVARIANT Sound\nCHECK_DEADLOCK FALSE\n' % (
            '"t1"' if thorough else '"t1", "t2"', 5 if thorough else 4))
    res = lib.run_tlc("Cache.tla", cfg, workers=12, timeout=3000, xmx="16g")
    chk.add_tlc("Cache(Sound)", res)
    if res.violation:
        chk.violation(f"C12/model {res.violation}", "Cache.tla is unsound", {"tlc": res.output[-2500:]})
        return chk.finish()
    lib.build_all()
    rng = random.Random(chk.seed + 12)
    n = 400 if thorough else 90
    cases = [(k, rng.randint(0, 1 << 30), rng.randint(2, 6), "/var/tmp" if k % 2 else "/dev/shm") for k in range(1, n + 1)]
    results = lib.pmap(run_history, cases, workers=10)
    hits = sum(r["hits"] for r in results)
    for r in results:
        for s, what, detail in r["problems"]:
            st = r["steps"][s]
            chk.violation(f"C12/{what} edits={'+'.join(st['edits']) or 'none'} cfg={json.dumps(st['cfg'], sort_keys=True)}",
                          f"`group --cache` and `group` disagree at step {s + 1} of the history: {detail}", r)
    # the cache events of the same runs, history by history, against Trace_Cache.tla
    tdir = lib.mkscratch("c12t", base=lib.BUILD)
    try:
        tf = os.path.join(tdir, "cache.ndjson")
        nruns = 0
        with open(tf, "w") as f:
            for r in results:
                if r["trace_steps"]:
                    nruns += r["trace_steps"]
                    for e in r["trace"]:
                        f.write(json.dumps(e) + "\n")
        if nruns:
            problems, stats = lib.validate_traces("Trace_Cache.tla", "Trace_Cache.cfg", tf, max_problems=5, timeout=1800)
            chk.cov["tlc_runs"].append({"config": "Trace_Cache(CacheLookup / CacheStore events of the real runs)", "distinct_states": stats["states"],
                                        "states_generated": stats["generated"], "histories": stats["runs"], "runs": nruns, "events": stats["events"]})
            chk.cov["states"] += stats["states"]
            chk.cov["transitions"] += stats["generated"]
            for p in problems:
                runs_ = [e for e in p["run"] if e.get("ev") == "Run"]
                ctx = {"k": p["run"][0].get("k") if p["run"] else None, "event": p["event"],
                       "steps": [{"step": e["step"], "edits": e["edits"], "cfg": e["cfg"], "table": e["table"]} for e in runs_][-3:]}
                if p["kind"] == "invariant" and p["name"] == "Sound":
                    last = runs_[-1] if runs_ else {}
                    chk.violation(f"C12/stale-hash-served edits={'+'.join(last.get('edits', [])) or 'none'} cfg={json.dumps(last.get('cfg', {}), sort_keys=True)}",
                                  "the cache answered a lookup with the hash of other content: the entry was stored when the file held a different content class "
                                  "(Sound of Trace_Cache.tla is false at " + json.dumps(p["event"]) + ")", ctx)
                else:
                    chk.divergences += 1
                    print(f"DIVERGENCE property=C12 cache events not explained by Trace_Cache.tla ({p['kind']} {p['name']}): {json.dumps(ctx)[:700]}")
    finally:
        lib.rmtree(tdir)
    chk.cov["evaluations"] = sum(r["compared"] for r in results)
    chk.cov["traces_validated_against_impl"] = sum(r["compared"] for r in results)
    chk.cov["distinct_nontrivial"] = sum(1 for r in results if r["hits"] > 0)
    chk.cov["cache_hits"] = hits
    chk.cov["cache_lookups"] = sum(r["lookups"] for r in results)
    chk.cov["rule"] = ("seeded histories of 2-6 (edit tree; run group --cache and plain group with one configuration) steps over files that share long prefixes and suffixes, on ext4 "
                       "(inode reuse) and tmpfs, with a persistent private cache; edits: create, modify (+1 ms / same ms bumped), other length with kept mtime, older mtime, append, "
                       "truncate, rename, delete+recreate, hard link, swap, delete; configuration switches between runs (hash function, transform program arguments, prefix/suffix "
                       "sizes, device kind, filter); interrupted cached runs; non-trivial = history with at least one cache hit")
    for r in results:
        r.pop("trace", None)
    chk.sample({"history": results[0]["steps"], "cache_hits": results[0]["hits"]})
    if hits == 0 and not chk.violations:
        raise lib.ToolError("vacuity: the cache was never hit")
    return chk.finish()


if __name__ == "__main__":
    try:
        sys.exit(main(sys.argv[1] if len(sys.argv) > 1 else "quick"))
    except lib.ToolError as e:
        print("TOOL-ERROR", e, file=sys.stderr)
        sys.exit(2)
