"""Regenerates /verif/MANIFEST.json from the table below (run after adding a check)."""
import json, os, subprocess, sys
V = os.path.dirname(os.path.dirname(os.path.abspath(__file__)))
props = [json.loads(l) for l in open(os.path.join(V, "properties.jsonl"))]

CHECKS = {
 "C19": dict(cat="model_checking", sec="5 C19",
   text="Semaphore.tla is model-checked exhaustively by TLC (safety invariants and liveness under weak fairness, closed systems of up to 3 (quick) / 4 (thorough) threads, "
        "0-2 permits, guards released on the same or another thread, bounded spurious wake-ups). TLC-generated macro-step schedules are imposed on the real semaphore through "
        "cfg-guarded hook gates, the fine-grained hook events and hook-independent observer events (acquired/releasing, stuck threads, restoration probe) are recorded and "
        "validated by TLC against the same specification. This is the right level because the property quantifies over interleavings. The semaphores inside fclones are also observed while the repository's own 170 unit tests run (test binary built with the hooks): Trace_SemOpen.tla (open-system view, counter pinned by every event logged under the mutex) validates the throttle semaphores of rehash and the open-files semaphore, ~11 000 events with ~290 real sleeps.",
   note="std Mutex/Condvar semantics as modelled; OS choice of the woken waiter is observed, not forced; stuck = no progress for 2.5 s; schedules at macro-step grain",
   tech="TLC model checking + schedule replay into real code + TLC trace validation"),
 "C05": dict(cat="model_checking", sec="5 C05",
   text="DedupeOps.tla (each command as its sequence of system calls with failure / roll-back branches) is model-checked by TLC for all interleavings of two commands, "
        "every crash point and every single and double failure, also for a group in which the path to replace is a hard link of the retained file (a clone onto itself must fail and be rolled back; the deviation `open with O_TRUNC` must be refuted there). The real binary is run under an LD_PRELOAD shim once per (scenario, position k of a mutating/lock call, "
        "kill before / kill after / each errno) and per pair (operation + its roll-back); the C05 statements are evaluated by TLC on the real inventories (mode obs) and the "
        "recorded call sequence drives the specification with every invariant evaluated after every call and the abstract file system compared with the real one at the end (mode full).",
   note="kill at syscall boundary (no torn writes); reflink success emulated by the shim in the kernel's order of checks (no reflink file system in the sandbox); positions from a calibration run; single-threaded sweep (parallel in thorough)",
   tech="TLC model checking + syscall fault/crash enumeration on the real binary + TLC trace validation"),
 "C18": dict(cat="model_checking", sec="5 C18",
   text="The move part of DedupeOps.tla is model-checked by TLC (collisions, failures of rename/mkdir/copy/unlink, crash points). Real `fclones move` runs on two real devices "
        "(tmpfs/ext4) with pre-existing files, directories and files-at-parent at the targets, relative/absolute DIR, hostile names, and a failure or kill at every mutating call; "
        "NoOverwrite / SourceLast / target mapping are evaluated by TLC on real inventories and on the reconstructed intermediate states.",
   note="expected target computed by the driver from the documented mapping; kill at syscall boundary",
   tech="TLC model checking + fault enumeration on the real binary + TLC trace validation"),
 "C20": dict(cat="model_checking", sec="5 C20",
   text="DedupeOps.tla with foreign locks is model-checked by TLC for every subset of droppable members locked x --no-lock x 5 operations; the real binary is run for the same matrix "
        "(exclusive and shared foreign fcntl locks held by a separate process) and LockedLeftAlone / OthersProcessed are evaluated by TLC on the real inventories and call traces.",
   note="POSIX fcntl locks held by a helper process for the whole run; 4-file groups",
   tech="TLC model checking + exhaustive lock-subset replay on the real binary + TLC trace validation"),
 "C08": dict(cat="model_checking", sec="5 C08",
   text="Partition.tla states the keep/drop rule declaratively (sub-groups, lexicographic priority ranking, keep/drop patterns, top-up to max(1,n), inheritance from the report header). "
        "TLC checks the consequences named in the property on every case of a small universe (MC_Partition) and is the oracle for seeded random cases: each case is materialised "
        "(hard links, isolate roots, tied time ranks, nesting, patterns), real `group` then real `remove` (and --dry-run) run from the real command line, and the set of removed "
        "paths must equal the set TLC computes from Partition.tla.",
   note="sub-group members get equal times/depth; chained priorities read as lexicographic; only `remove` is used to observe the partition (the other operations share it)",
   tech="TLC-evaluated declarative spec as oracle + randomized replay on the real binary"),
 "C02": dict(cat="model_checking", sec="5 C02",
   text="The C02 statements (ContentKept, ReplicasUntouched with sub-groups from Partition.tla, OutsideUntouched, LinkOpsPreserveReads, MoveKeepsBytes) are TLA+ predicates "
        "(DedupeObs.tla) evaluated by TLC on complete inventories observed before/after real `group | <op>` pipelines over seeded random trees: several groups, hard-link sets, "
        "relative/absolute symlinks reported with -S, --isolate, --match-links, hostile file names with decoys, text and JSON reports, five operations, pre-populated move targets. Dedupe.tla composes group ; remove over four paths with links and two-hop link chains across isolate roots; TLC checks ContentKept / NoDangling with the repair of partition() (Rescue) and must refute them without it.",
   note="content identity = SHA-256; the dangerous -H -S combination is not generated; `dedupe` runs with ioctl(FICLONE) emulated by the shim in the kernel\'s order of checks (no reflink file system in the sandbox)",
   tech="TLC-evaluated property predicates on observed inventories of randomized real runs"),
 "C11": dict(cat="model_checking", sec="5 C11",
   text="LogScript.tla models the parallel producers / priority-queue printer of --dry-run and is checked by TLC for every producer schedule (order = report order, every group printed; a "
        "skipped index provably stalls it). On the real binary: for each scenario of the C02 generator and for 70-group trees with 1/2/16 threads the dry run is taken on the same tree "
        "before the real run (tree must stay unchanged), summaries are compared, and for remove/link the printed script is executed by bash on a restored copy and the final trees compared.",
   note="trees equal up to inode numbering and temp names; comparisons skipped when a command of the real run failed",
   tech="TLC model checking of the printer + metamorphic replay (dry-run script through bash vs real run)"),
 "C04": dict(cat="model_checking", sec="5 C04",
   text="StaleReport.tla models the time line (reads of `group`, report timestamp, user edits at any point from the first read of a member until the dedupe inspection, the dedupe "
        "decision) and TLC checks NoChangedDataLost for all histories of <= 2 edits - it fails when the timestamp is taken after the reads and holds when it is taken at the start, "
        "which is what located the defect repaired by the fix commit. TLC enumerates the histories that are replayed on the real binary: edits during the `group` run are placed by "
        "the shim after the k-th close of the member, edits between the runs by the driver; ContentKept (DedupeObs.tla) is evaluated by TLC on the inventories at inspection / after.",
   note="30 ms guard gaps around every edit; ordinary writes only; three time zones",
   tech="TLC model checking of the time line + TLC-enumerated edit histories replayed on the real binary with shim-placed edits"),
 "C01": dict(cat="model_checking", sec="5 C01",
   text="GroupObs.tla states the promise (GroupsIdentical: equal class of (length, bytes) - of the transform output with --transform - and printed length) and TLC evaluates it on the parsed report "
        "of real `group` runs over seeded trees whose content classes are a base and single-byte flips at the stage boundaries (4 KiB, 16 KiB, 64 KiB buffer / suffix threshold, >128 KiB), with copies, "
        "hard links, symlinks, and random configurations (7 hash functions, cache, pinned device kind, prefix/suffix sizes, thread pools, keep/shrink/expand/drop-head transforms). "
        "The oracle compares bytes directly. Grouping.tla specifies the staged pipeline itself (size / prefix / suffix / contents stages of `rehash`: pre-filter, runs of same-identity paths, one task per run in any order, regrouping by (length, hash) with hash values as XOR-able sets of window atoms, pass-through groups, permissive vs strict filter, --skip-content-hash final filter, unreadable identities); MC_Grouping model-checks Sound / Complete / NeverSplit / BadAlone / OthersUnaffected / FilterHonoured for every input of a small byte-level universe and every task order, and Trace_Grouping validates the StageDone hook events of the same real runs stage by stage (candidate sets after every stage must equal the specification's).",
   note="content classes by direct comparison of the bytes; 128-bit hash collisions outside the property; seeded random trees around the stage thresholds (not exhaustive over sizes)",
   tech="TLC model checking of the staged pipeline (Grouping.tla) + stage-by-stage trace validation of real runs + TLC-evaluated declarative spec (GroupObs.tla) as oracle; byte-compare oracle"),
 "C03": dict(cat="model_checking", sec="5 C03",
   text="ExactPartition / NoPathTwice / OnlyScanned of GroupObs.tla (expected groups = content classes of the scanned files that satisfy the replication filter, replicas counted with "
        "Partition.tla's sub-groups) evaluated by TLC on real reports: rf-over 0..3, rf-under 1..3, unique, isolate, hard links, repeated / nested / reordered roots, two tmpfs mounts with "
        "coinciding inode numbers, transforms, cache. Grouping.tla specifies the staged pipeline itself (size / prefix / suffix / contents stages of `rehash`: pre-filter, runs of same-identity paths, one task per run in any order, regrouping by (length, hash) with hash values as XOR-able sets of window atoms, pass-through groups, permissive vs strict filter, --skip-content-hash final filter, unreadable identities); MC_Grouping model-checks Sound / Complete / NeverSplit / BadAlone / OthersUnaffected / FilterHonoured for every input of a small byte-level universe and every task order, and Trace_Grouping validates the StageDone hook events of the same real runs stage by stage (candidate sets after every stage must equal the specification's).",
   note="content classes by direct comparison of the bytes; 128-bit hash collisions outside the property; seeded random trees around the stage thresholds (not exhaustive over sizes)",
   tech="TLC model checking of the staged pipeline (Grouping.tla) + stage-by-stage trace validation of real runs + TLC-evaluated declarative spec as oracle"),
 "C06": dict(cat="model_checking", sec="5 C06",
   text="Replica counting (sub-groups by isolate root, else by file identity unless --match-links) is Partition.tla/GroupObs.tla; TLC evaluates ExactPartition on real reports of trees rich in hard links "
        "and symlinks with -S/-H/-I and rf variations, and the reported sets must be identical when the same roots are spelled ./r, r/, x/../r, through a symlink, absolute, or relative to a "
        "non-canonical --base-dir. Grouping.tla specifies the staged pipeline itself (size / prefix / suffix / contents stages of `rehash`: pre-filter, runs of same-identity paths, one task per run in any order, regrouping by (length, hash) with hash values as XOR-able sets of window atoms, pass-through groups, permissive vs strict filter, --skip-content-hash final filter, unreadable identities); MC_Grouping model-checks Sound / Complete / NeverSplit / BadAlone / OthersUnaffected / FilterHonoured for every input of a small byte-level universe and every task order, and Trace_Grouping validates the StageDone hook events of the same real runs stage by stage (candidate sets after every stage must equal the specification's).",
   note="content classes by direct comparison of the bytes; 128-bit hash collisions outside the property; seeded random trees around the stage thresholds (not exhaustive over sizes)",
   tech="TLC model checking of the staged pipeline (Grouping.tla) + stage-by-stage trace validation + TLC-evaluated declarative spec as oracle + metamorphic root-spelling replay"),
 "C14": dict(cat="model_checking", sec="5 C14",
   text="StatsMatch (header = body, redundant/missing as defined through the sub-groups), SortedBySize, RootsTogether of GroupObs.tla evaluated by TLC on real reports; the text, JSON, CSV and fdupes "
        "outputs of the same run are parsed by independent parsers and must describe the same groups with matching counts; -o FILE (pre-existing, longer file) must equal stdout; paths absolute. A report must not contain foreign bytes: `group --transform` under the schedule in which the program's launch probe runs before it is killed (delayed kill in the interposer), in every output format.",
   note="content classes by direct comparison of the bytes; 128-bit hash collisions outside the property; seeded random trees around the stage thresholds (not exhaustive over sizes)",
   tech="TLC-evaluated declarative spec as oracle + cross-format comparison"),
 "C13": dict(cat="model_checking", sec="5 C13",
   text="Rehash.tla (device threads, throttle semaphore, pool workers, open-files permits, channel, collector) is model-checked by TLC for every interleaving: no deadlock (also with one-thread "
        "pools), termination under weak fairness, bounded in-flight tasks, and confluence (the collected map does not depend on the schedule). Hook events of real rehash invocations are validated "
        "by TLC against the task life cycle (Trace_Rehash). On the real binary a configuration matrix (repeated runs, thread-pool specifications, permutations of the roots, --stdin) must give "
        "byte-identical report bodies, and hash function / prefix / suffix / device type / cache variations identical partitions, every run under a 60 s bound. The rehash invocations of the repository's own unit tests (built with the hooks) are validated against Trace_Rehash as well.",
   note="real schedules are sampled, the exhaustive part is on the model; with --isolate only the groups are compared under root permutation",
   tech="TLC model checking (safety + liveness) + hook trace validation + metamorphic replay of the configuration matrix"),
 "C12": dict(cat="model_checking", sec="5 C12",
   text="Cache.tla models the cache tables (key = file id + chunk, validation by mtime ms + length, one table per hash function / transform), arbitrary edits that respect the precondition "
        "(incl. inode reuse, kept or older mtimes, length-only changes), configuration switches and interrupted runs; TLC checks Sound (a valid entry is what an uncached run computes) "
        "for all histories up to the bound. Seeded histories are replayed on real files (ext4 and tmpfs, explicit mtimes) with a persistent private cache: after every step `group --cache` and "
        "plain `group` must print identical report bodies; hook events count the cache hits (vacuity guard). The CacheLookup / CacheStore hook events of the same real runs are validated against Trace_Cache.tla (entries keyed by table, identity and chunk, remembering modification time, length and the content class at store time): every hit must be explained by an entry, ValidHit / Sound are evaluated on every hit, a miss must not have a valid entry.",
   note="precondition read as 'content is a function of (mtime ms, length) per file over the history' (see DESIGN.md 5.0)",
   tech="TLC model checking of the cache design + randomized history replay (cached vs uncached) on the real binary"),
 "C15": dict(cat="model_checking", sec="5 C15",
   text="GroupFaults.tla is a functional model of the staged pipeline (size, prefix, suffix, contents; permissive filter between stages, strict at the end; pass-through of single-id and short groups) "
        "with read failures at any stage; TLC checks for every input of the small universe that the report equals the report of the tree without the failed files (Isolated) and, without faults, the "
        "filtered content partition (Complete). On the real binary a calibration run lists every stat/open/n-th read/opendir/n-th readdir/extent query per path; one run per (path, call, ordinal, "
        "EACCES/EIO/ENOENT) and sampled pairs is compared with a fault-free run on the same tree without the entry; exit status and warnings are checked; a two-run --transform --cache scenario "
        "covers a read failing inside the transform program. Every faulted run is also validated stage by stage against Grouping.tla (Trace_Grouping: the paths whose open / read was failed are the specification's unreadable paths, entries lost during the walk are not part of the input; BadAlone and OthersUnaffected are evaluated on the matched states).",
   note="reference = same tree with the entry deleted; single hashing thread for reproducible ordinals; group shapes compared (the printed hash of a pass-through singleton may differ)",
   tech="TLC model checking of the staged pipeline with faults + syscall fault enumeration on the real binary (differential against the fault-free run)"),
 "C07": dict(cat="model_checking", sec="5 C07",
   text="Transform.tla models the handle life cycle of --transform (stdin | $IN original | $IN temporary copy; stdout | $OUT pipe | --in-place) and what each handle deletes on drop; TLC checks "
        "Unmodified and TempsGone over the product of I/O modes and program behaviours (the model with the pinned drop semantics exhibits the deletion repaired by the fix commit). The real "
        "binary runs every mode x group options and every dedupe operation with --dry-run under the shim (inherited by the transform programs): no mutating call may touch a path of the tree, "
        "inventories incl. mtimes of files and directories must be equal before/after, the private temp directory must be empty afterwards.",
   note="temp/cache/home directories are private scratch dirs outside the tree; -o points outside the tree",
   tech="TLC model checking of the handle life cycle + syscall-level observation of real runs (shim) with inventories"),
 "C16": dict(cat="model_checking", sec="5 C16",
   text="Glob.tla is the reference matcher (token-level semantics of the README table, case folding). TLC enumerates every glob of up to 3 tokens over 20 token kinds and evaluates it on every "
        "string of up to 4 characters over {a,A,.,-,ż,/} (about 10^7 pairs), emitting for each glob the matching set and the directories that are ancestors of matching strings. Every vector is "
        "replayed through the real Pattern::glob_with / matches (exact equality), matches_partially (must admit every ancestor), matches_prefix (exclude pruning must not skip unmatched paths), "
        "and sampled pairs through the real PathSelector with two --path patterns.",
   note="bounded: <= 3 tokens, <= 4 characters (the property's 5 tokens / 4 components are not reached exhaustively); `!(..)` and newline outside",
   tech="TLC bounded-exhaustive evaluation of a reference matcher spec + vector replay through the real matcher"),
 "C17": dict(cat="model_checking", sec="5 C17",
   text="ShellWords.tla states, at the level of 41 symbol classes (shell syntax, pattern characters, brace-expansion material, invalid and truncated multi-byte sequences), which quoting style `quote` picks and under which condition each style is taken literally by bash (unquoted specials, word-initial "
        "# and ~, ' inside '..', invalid bytes in lossy output); TLC checks QuoteIsLossless for every word up to the bound (it exposed the missing ~) and for every word of up to 6-7 symbols over the brace material, and must refute a `quote` that leaves braces bare. Every enumerated word, lists of 2-3 words and "
        "seeded long random byte strings go through the real join -> split (must return the same bytes; a panic is reported) and through real bash (printf %s\\0; must print the same bytes).",
   note="bash 5.2 non-interactive, cwd holding only files a aa aaa (so that unquoted ? ?? [a] expand), HOME=/nonexistent-home; identity through two real decoders is the oracle, the model supplies enumeration and the style conditions",
   tech="TLC model checking of the quoting-style conditions + bounded-exhaustive replay through the real functions and bash"),
 "C10": dict(cat="model_checking", sec="5 C10",
   text="ReportFmt.tla is the line-level reader state machine of the text format (7 header lines, group header, `count` path lines) over every truncation of a report (after a line or inside it); "
        "TLC checks that only complete original groups are delivered and that a cut inside a group is rejected (the variant that accepts an unterminated path line fails, which is the defect "
        "repaired by a fix commit). Reports with every string of <= 2 (quick) / 3 (thorough) troublesome bytes as file name, argument and base directory plus random long names are written by "
        "the real ReportWriter and read by the real readers in both formats (exact equality of header and groups); every byte prefix of sample reports is fed to the readers and, end to end, "
        "prefixes of a real report to `fclones remove --dry-run` (no command for a path that is not in the report).",
   note="escaping fidelity (stfu8) is decided by executing the real encoder/decoder; the spec contributes the reader state machine and the enumeration",
   tech="TLC model checking of the reader state machine + bounded-exhaustive round-trip and truncation replay through the real writer/readers"),
 "C09": dict(cat="model_checking", sec="5 C09",
   text="Walk.tla states declaratively which entries the scan selects (depth as documented, hidden, ignore files that take effect where the walk enters, --follow-links / --symbolic-links, dangling "
        "links and cycles, --one-fs, several / nested / repeated roots); TLC evaluates Selected on the abstract description of seeded real trees and is the oracle for the real "
        "`group --rf-over 0 -f json` run with the same options: the selected path set must be equal and free of duplicates. Size and pattern predicates come from a reference matcher that is "
        "checked against Glob.tla's TLC vectors in the same run. With --follow-links the ignore files of the route by which an entry is reached are in effect and an entry is selected if it passes on at least one route; trees with two routes to one directory under different ignore files are generated on purpose.",
   note="ignore rules limited to name, dir/ and *.ext; depth limits are not combined with --follow-links; one ignore file per directory; no hidden roots",
   tech="TLC-evaluated declarative spec (Walk.tla) as oracle for randomized real runs"),
}

def main():
    repo_commits = subprocess.run(["git", "-C", "/repo", "log", "--format=%h %s", "fec768b..HEAD"], capture_output=True, text=True).stdout.strip().split("\n")
    hook_commits = [c.split()[0] for c in repo_commits if "verif hook" in c]
    checks = []
    for p in props:
        c = CHECKS.get(p["id"])
        if not c:
            continue
        checks.append({"property_id": p["id"], "quick_cmd": f"./check {p['id']} quick", "thorough_cmd": f"./check {p['id']} thorough",
                       "evidence_file": f"/verif/evidence/{p['id']}.json", "replay_cmd_template": "./replay {path}",
                       "engine": "tlc+replay", "level_claimed": {"category": c["cat"], "text": c["text"], "design_ref": c["sec"]},
                       "level_note": c["note"], "technique": c["tech"]})
    na = [{"property_id": p["id"], "reason": NA.get(p["id"], "check not built yet (work in progress, see DESIGN.md section 10)")}
          for p in props if p["id"] not in CHECKS]
    m = {"version": 1, "setup_cmd": "./setup.sh",
         "hooks": {"guard": "--cfg fclones_verif",
                   "enable": "RUSTFLAGS='--cfg fclones_verif --check-cfg cfg(fclones_verif)' (harness/.cargo/config.toml; driver/lib.py build_all builds /repo's working tree into /verif/.build/target)",
                   "baseline_off_cmd": "cd /repo/fclones && cargo test --workspace --no-fail-fast --offline",
                   "source_commits": hook_commits, "add_only": True},
         "engines": [{"name": "tlc+replay", "path": "/verif/check", "serves_properties": sorted(CHECKS), "kind_free_text":
                      "TLA+ specifications in /verif/spec checked by TLC; TLC-generated scenarios replayed on the real binary / library; recorded traces validated by TLC"}],
         "checks": checks, "notes": "see DESIGN.md; known genuine defects of the unchanged tree are in known_findings.json",
         "not_applicable": na}
    json.dump(m, open(os.path.join(V, "MANIFEST.json"), "w"), indent=1)
    print("checks:", [c["property_id"] for c in checks])

NA = {}
if __name__ == "__main__":
    main()
