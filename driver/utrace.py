"""Traces of the repository's own unit tests: the test binary of /repo/fclones is built with the hooks enabled and run once with the
event sink on; the events are cut into segments that Trace_SemOpen.tla (semaphores) and Trace_Rehash.tla (rehash life cycle) validate."""
import json
import os
import re
import subprocess

import lib

UT_TARGET = os.path.join(lib.BUILD, "target-ut")


def record(timeout=900):
    """Builds and runs the unit tests of /repo/fclones (library) with --cfg fclones_verif and returns the list of events (or None
    if the test binary cannot be built / does not finish: the repository's tests are not this check's subject)."""
    env = dict(os.environ)
    env.update({"RUSTFLAGS": "--cfg fclones_verif --check-cfg cfg(fclones_verif)", "CARGO_NET_OFFLINE": "true"})
    with lib.build_lock():
        r = subprocess.run(["cargo", "test", "--offline", "--lib", "--target-dir", UT_TARGET, "--no-run", "--message-format=json"],
                           cwd=os.path.join(lib.REPO, "fclones"), env=env, capture_output=True, text=True, timeout=timeout)
    if r.returncode != 0:
        return None, "unit tests do not build with the hooks: " + r.stderr[-500:]
    exe = None
    for line in r.stdout.splitlines():
        try:
            m = json.loads(line)
        except ValueError:
            continue
        if m.get("reason") == "compiler-artifact" and m.get("profile", {}).get("test") and m.get("executable") and m["target"]["name"] == "fclones" \
                and "lib" in m["target"]["kind"]:
            exe = m["executable"]
    if not exe:
        return None, "test executable not found"
    d = lib.mkscratch("ut")
    try:
        tf = os.path.join(d, "ut.ndjson")
        e2 = dict(os.environ)
        e2["FCLONES_VERIF_TRACE"] = tf
        try:
            # cwd = scratch: the tests create their files under ./target/test
            t = subprocess.run([exe, "--test-threads=1"], cwd=d, env=e2, capture_output=True, text=True, timeout=timeout)
        except subprocess.TimeoutExpired:
            return None, "unit tests did not finish"
        m = re.search(r"test result: (\w+)\. (\d+) passed; (\d+) failed", t.stdout)
        evs = []
        if os.path.exists(tf):
            with open(tf) as f:
                evs = [json.loads(x) for x in f]
        return evs, (m.group(0) if m else "no summary")
    finally:
        lib.rmtree(d)


SEM_EVS = ("AcqEnter", "AcqSleep", "AcqWake", "AcqDone", "RelStart", "RelMid", "RelEnd")


def semaphore_segments(evs):
    """One segment per semaphore instance whose initial count is known: the throttle semaphore of a device thread (DeviceStart .. CollectorEnd
    of its rehash, 8 x pool threads permits) and the process-wide open-files semaphore (its first event is the first acquisition of the
    process: initial count = logged count + 1). Other semaphores (those of the semaphore unit tests) have no creation marker: skipped."""
    segs = []
    open_seg = {}           # sem address -> (rh, lines)
    static = {}             # sem address -> lines, for addresses whose first counted event shows a large count
    first_seen = {}
    for e in evs:
        if e["ev"] == "DeviceStart":
            open_seg[e["sem"]] = (e["rh"], [{"ev": "Reset", "permits": 8 * e["threads"], "what": "throttle rh=%d dev=%d" % (e["rh"], e["dev"])}])
        elif e["ev"] == "CollectorEnd":
            for s in [s for s, (rh, _) in open_seg.items() if rh == e["rh"]]:
                segs.append(open_seg.pop(s)[1])
        elif e["ev"] in SEM_EVS:
            s = e["sem"]
            if s in open_seg:
                open_seg[s][1].append(e)
            else:
                if s not in first_seen:
                    first_seen[s] = e
                    if e["ev"] == "AcqEnter":
                        static[s] = []
                if s in static:
                    static[s].append(e)
    for s, lines in static.items():
        counted = [e for e in lines if "count" in e]
        if counted and counted[0]["ev"] == "AcqDone" and counted[0]["count"] >= 1000 and not any(e["ev"].startswith("Rel") for e in lines[:lines.index(counted[0])]):
            segs.append([{"ev": "Reset", "permits": counted[0]["count"] + 1, "what": "open-files limit"}] + lines)
    return segs


def validate_semaphores(chk, evs, label):
    segs = semaphore_segments(evs)
    if not segs:
        return 0
    d = lib.mkscratch("uts", base=lib.BUILD)
    try:
        path = os.path.join(d, "sem.ndjson")
        with open(path, "w") as f:
            for seg in segs:
                for e in seg:
                    f.write(json.dumps(e) + "\n")
        problems, stats = lib.validate_traces("Trace_SemOpen.tla", "Trace_SemOpen.cfg", path, max_problems=4, timeout=1200)
        chk.cov["tlc_runs"].append({"config": f"Trace_SemOpen({label})", "distinct_states": stats["states"], "states_generated": stats["generated"],
                                    "runs": stats["runs"], "events": stats["events"]})
        chk.cov["states"] += stats["states"]
        chk.cov["transitions"] += stats["generated"]
        for p in problems:
            what = p["run"][0].get("what") if p["run"] else "?"
            if p["kind"] == "invariant":
                chk.violation(f"C19/{p['name']} in {label} ({what.split(' ')[0]})",
                              f"{p['name']} is false on the counter values logged under the mutex by the real semaphore ({label}, {what}): " + json.dumps(p["event"]),
                              {"segment": p["run"][:200]})
            else:
                chk.divergences += 1
                print(f"DIVERGENCE property=C19 {label} ({what}) line={p['line']} event={json.dumps(p['event'])[:200]}")
        return len(segs) - len(problems)
    finally:
        lib.rmtree(d)
