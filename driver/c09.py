"""C09: the scan selects exactly the files the options describe."""
import json
import os
import random
import re
import subprocess
import sys

import gg
import lib

DIRNAMES = ["d", "sub", ".hid", "x.y", "a-b", "ż", "A b", "d1", "e(1)", "plus+", "..dd"]        # ..dd: two dots are hidden as well
FILENAMES = ["f.txt", "g.TXT", ".dot", "h.log", "ż.bin", "a b.txt", "k", "m.txt", "n.dat", "..two"]
SIZES = [0, 1, 2, 50, 100, 3000]                 # 2 and 100: exactly the --min / --max values used below (both bounds are inclusive)


def glob_re(g, ci=False, literal_prefix=""):
    """Reference translation of the simple globs used here (?, *, **, literals), checked against Glob.tla vectors in self_check().
    literal_prefix: text matched literally before the glob (the working directory of a relative pattern)."""
    out, i = re.escape(literal_prefix), 0
    while i < len(g):
        if g.startswith("**", i):
            out += ".*"; i += 2
        elif g[i] == "*":
            out += "[^/]*"; i += 1
        elif g[i] == "?":
            out += "[^/]"; i += 1
        else:
            out += re.escape(g[i]); i += 1
    return re.compile("^" + out + "$", re.S | (re.I if ci else 0))


def self_check(chk):
    """The Python reference matcher must agree with Glob.tla on TLC's vectors for the token kinds it supports."""
    import c16
    vecs = c16.enumerate_vectors(chk, "c09ref", 2, 3, False, workers=6, timeout=600)
    n = 0
    for v in vecs:
        if any(t["t"] not in ("lit", "any1", "star", "dstar") or t.get("e") for t in v["glob"]) or c16.ambiguous(v["glob"]):
            continue
        text = "".join({"any1": "?", "star": "*", "dstar": "**"}.get(t["t"], t.get("c", "")) for t in v["glob"])
        rx = glob_re(text)
        got = sorted(s for s in c16.UNIVERSE if len(s) <= 3 and rx.match(s))
        if got != v["matching"]:
            raise lib.ToolError(f"reference matcher disagrees with Glob.tla on {text!r}: {got[:5]} vs {v['matching'][:5]}")
        n += 1
    return n


class Tree:
    def __init__(self, seed, mount=False):
        rng = self.rng = random.Random(seed)
        self.work = lib.mkscratch("c09")
        # now and then a working directory whose own name is full of pattern syntax: it must be taken literally
        self.twin = False
        self.meta = seed % 5 == 0
        self.base = os.path.join(self.work, rng.choice(["v[1]", "{a,b}+(c)", "w.o$r^k", "q*z?", "@(x|y)"]) if self.meta else "b")
        os.makedirs(self.base)
        self.entries = []          # dict(id, parent, kind, path, name, size, target, dev, rules)
        self.mounted = []
        self.byp = {}
        tops = []
        for t in range(rng.randint(2, 3)):
            tops.append(self.mkdir(0, os.path.join(self.base, "T%d" % t), "T%d" % t))
        self.tops = tops
        dirs = list(tops)
        for _ in range(rng.randint(3, 9)):
            parent = rng.choice(dirs)
            if self.depth_of(parent) >= 4:
                continue
            name = rng.choice(DIRNAMES)
            p = os.path.join(self.entries[parent - 1]["path"], name)
            if p in self.byp:
                continue
            d = self.mkdir(parent, p, name)
            dirs.append(d)
            if mount and not self.mounted and name not in (".hid",) and rng.random() < 0.5:
                m = subprocess.run(["mount", "-t", "tmpfs", "-o", "size=4m", "tmpfs", p], capture_output=True)
                if m.returncode == 0:
                    self.mounted.append(p)
                    self.entries[d - 1]["dev"] = 2
        for _ in range(rng.randint(5, 14)):
            parent = rng.choice(dirs)
            name = rng.choice(FILENAMES)
            p = os.path.join(self.entries[parent - 1]["path"], name)
            if p in self.byp:
                continue
            size = rng.choice(SIZES)
            with open(p, "wb") as f:
                f.write(bytes([rng.randrange(256)]) * size)
            self.add(parent, "file", p, name, size=size)
        # symbolic links: to files, to directories (also to an ancestor: a cycle), dangling
        for _ in range(rng.randint(1, 5)):
            parent = rng.choice(dirs)
            name = rng.choice(["l%d" % len(self.entries) + rng.choice(["", ".txt", ".log", ".log"]), "k", "m.txt"])
            p = os.path.join(self.entries[parent - 1]["path"], name)
            if p in self.byp:
                continue
            kind = rng.choice(["file", "dir", "dangling", "ancestor"])
            cands = [e for e in self.entries if e["kind"] == ("file" if kind == "file" else "dir")]
            if kind == "dangling" or not cands:
                os.symlink("nowhere/at-all", p)
                self.add(parent, "link", p, name, target=0)
                continue
            t = rng.choice(cands) if kind != "ancestor" else self.entries[parent - 1]
            how = rng.random()
            if how < 0.4:
                text = os.path.relpath(t["path"], os.path.dirname(p))
            elif how < 0.75 or t["path"].count("/") < 3:
                text = t["path"]
            else:
                # an absolute target that is not in canonical form: it names the same entry through `dir/../dir`
                up = os.path.dirname(t["path"])
                text = os.path.join(up, "..", os.path.basename(up), os.path.basename(t["path"]))
            os.symlink(text, p)
            self.add(parent, "link", p, name, target=t["id"])
        if self.mounted:
            # links that cross the mount point in both directions (what --one-fs has to stop when links are followed)
            md = self.byp[self.mounted[0]]
            inside = os.path.join(self.mounted[0], "in.txt")
            if inside not in self.byp:
                with open(inside, "wb") as f:
                    f.write(b"m" * 50)
                self.add(md, "file", inside, "in.txt", size=50)
            outer = [d for d in dirs if self.entries[d - 1]["dev"] == 1 and md not in self.ancestors(d) and d != md]
            for nm, tgt in (("xdir", md), ("xfile.txt", self.byp[inside])):
                d = rng.choice(outer)
                lp = os.path.join(self.entries[d - 1]["path"], nm)
                if lp not in self.byp:
                    os.symlink(self.entries[tgt - 1]["path"], lp)
                    self.add(d, "link", lp, nm, target=tgt)
            back = rng.choice(outer)
            lp = os.path.join(self.mounted[0], "back")
            if lp not in self.byp:
                os.symlink(self.entries[back - 1]["path"], lp)
                self.add(md, "link", lp, "back", target=back)
        # ignore files
        self.rules = {}
        for _ in range(rng.randint(0, 3)):
            d = rng.choice(dirs)
            rl = rng.sample(["*.log", "sub/", "k", "m.txt"], rng.randint(1, 3))
            fname = rng.choice([".gitignore", ".fdignore"])
            p = os.path.join(self.entries[d - 1]["path"], fname)
            if d in self.rules:
                continue                # at most one ignore file per directory
            with open(p, "w") as f:
                f.write("\n".join(rl) + "\n")
            self.add(d, "file", p, fname, size=os.path.getsize(p))
            self.rules.setdefault(d, []).extend(rl)
        # two routes to one directory under different ignore files: a directory holding a file F, and a link to it from a directory
        # whose ignore file names F (with --follow-links F must be found whichever route the threads take first)
        if seed % 3 == 0:
            holders = [(d, f) for d in dirs for f in self.entries if f["kind"] == "file" and f["parent"] == d and not f["name"].startswith(".")]
            others = [x for x in dirs if x not in self.rules]
            if holders and others:
                d, f = rng.choice(holders)
                x = rng.choice(others)
                if x != d and x not in self.ancestors(d) and d not in self.ancestors(x):
                    xp = self.entries[x - 1]["path"]
                    lp = os.path.join(xp, "route%d" % len(self.entries))
                    os.symlink(self.entries[d - 1]["path"], lp)
                    self.add(x, "link", lp, os.path.basename(lp), target=d)
                    ip = os.path.join(xp, ".gitignore")
                    with open(ip, "w") as fh:
                        fh.write(f["name"] + "\n")
                    self.add(x, "file", ip, ".gitignore", size=os.path.getsize(ip))
                    self.rules[x] = [f["name"]]
                    self.twin = True
        # three routes to one directory that has an ignore file of its own: directly, and through links from two directories whose
        # ignore files name different files of it (the visits must be told apart by ALL ignore files in effect, not by the innermost)
        if seed % 3 == 1:
            holders = [d for d in dirs if d not in self.rules and len([f for f in self.entries if f["kind"] == "file" and f["parent"] == d and not f["name"].startswith(".")]) >= 2]
            others = [x for x in dirs if x not in self.rules]
            if holders and len(others) >= 3:
                d = rng.choice(holders)
                fs_ = [f for f in self.entries if f["kind"] == "file" and f["parent"] == d and not f["name"].startswith(".")][:2]
                xs = [x for x in others if x != d and x not in self.ancestors(d) and d not in self.ancestors(x)]
                if len(xs) >= 2:
                    dp = self.entries[d - 1]["path"]
                    with open(os.path.join(dp, ".fdignore"), "w") as fh:
                        fh.write("no-such-name\n")
                    self.add(d, "file", os.path.join(dp, ".fdignore"), ".fdignore", size=13)
                    self.rules[d] = ["no-such-name"]
                    for x, f in zip(rng.sample(xs, 2), fs_):
                        xp = self.entries[x - 1]["path"]
                        lp = os.path.join(xp, "via%d" % len(self.entries))
                        os.symlink(dp, lp)
                        self.add(x, "link", lp, os.path.basename(lp), target=d)
                        ip = os.path.join(xp, ".gitignore")
                        with open(ip, "w") as fh:
                            fh.write(f["name"] + "\n")
                        self.add(x, "file", ip, ".gitignore", size=os.path.getsize(ip))
                        self.rules[x] = [f["name"]]
                    self.twin = True
        for e in self.entries:
            if e["parent"] and self.entries[e["parent"] - 1]["dev"] == 2:
                e["dev"] = 2

    def mkdir(self, parent, p, name):
        os.makedirs(p, exist_ok=True)
        return self.add(parent, "dir", p, name)

    def add(self, parent, kind, path, name, size=0, target=0):
        e = {"id": len(self.entries) + 1, "parent": parent, "kind": kind, "path": path, "name": name, "size": size, "target": target, "dev": 1}
        self.entries.append(e)
        self.byp[path] = e["id"]
        return e["id"]

    def depth_of(self, i):
        d = 0
        while self.entries[i - 1]["parent"]:
            i = self.entries[i - 1]["parent"]
            d += 1
        return d

    def ancestors(self, i):
        out = []
        while self.entries[i - 1]["parent"]:
            i = self.entries[i - 1]["parent"]
            out.append(i)
        return out

    def ignored_by(self, e):
        """Directories whose ignore file has a rule matching e. The rules generated here have no slash, so they match the entry's
        name wherever it lies: with --follow-links the ignore files of the route by which an entry is reached are in effect, which
        need not be its ancestors (Walk.tla decides per route whether such a directory was entered)."""
        out = []
        for a in sorted(self.rules):
            for r in self.rules.get(a, []):
                if (r.endswith("/") and e["kind"] == "dir" and e["name"] == r[:-1]) or (not r.endswith("/") and glob_re(r).match(e["name"])):
                    out.append(a)
                    break
        return out

    def cleanup(self):
        for m in self.mounted:
            subprocess.run(["umount", "-l", m], capture_output=True)
        lib.rmtree(self.work)


def gen_opts(rng, tree):
    o = gen_opts0(rng, tree)
    if tree.twin:
        o.update({"follow": True, "noIgnore": False, "depth": None, "report": False})
    if o["follow"]:
        # a --path pattern with a literal directory prefix prunes the directories on the ROUTE to a followed link; whether a target
        # outside that prefix... inside it but reached only through a pruned directory must be found is not documented: not generated
        o["paths"] = [p for p in o["paths"] if p.startswith("**") or p.startswith(".*")]
    if tree.meta:
        # absolute patterns would make the directory name part of the glob text: only relative ones here
        for k in ("paths", "excludes"):
            o[k] = [p[len(tree.base) + 1:] if p.startswith(tree.base + "/") else p for p in o[k]]
    return o


def gen_opts0(rng, tree):
    o = {"depth": rng.choice([None, None, 0, 1, 2, 3]), "hidden": rng.random() < 0.4, "noIgnore": rng.random() < 0.3, "follow": rng.random() < (0.6 if tree.mounted else 0.3),
         "report": rng.random() < 0.3, "oneFs": bool(tree.mounted) and rng.random() < 0.7, "min": rng.choice([None, None, 0, 2]), "max": rng.choice([None, None, 100]),
         "names": [], "paths": [], "excludes": [], "regex": False, "ci": rng.random() < 0.25}
    if o["follow"] and o["depth"] is not None:
        o["depth"] = None                      # depth limits combined with followed links depend on the visiting order: not generated
    r = rng.random()
    if r < 0.25:
        o["names"] = [rng.choice(["*.txt", "f*", "?.*", "*.TXT"])]
    elif r < 0.45:
        o["paths"] = [rng.choice(["**/sub/**", "**/d*/**", "T0/**", "T*/d/*", tree.base + "/T1/**", "**/x.y/*", "**/ż/**", "**/a-b/**", "T0/d1/**", "**/e(1)/**", "**/plus+/*",
                                   "t1/**", "T1/**/*.txt", "T0/**/G.txt"])]        # the last three differ from existing names in letter case only
        if o["ci"] and rng.random() < 0.7:
            o["paths"] = [rng.choice(["t0/**", "**/SUB/**", "T0/D1/**", "**/*.txt", tree.base + "/t1/**"])]      # patterns that need the case folding
        if rng.random() < 0.3:
            o["paths"].append(rng.choice(["T1/**", "**/sub/*", tree.base + "/T0/*/*"]))
    elif r < 0.6:
        o["excludes"] = [rng.choice(["**/sub/**", "**/*.log", "**/x.y/**", "T0/**", tree.base + "/T1/d/**"])]
    elif r < 0.7:
        o["regex"] = True
        o["names"] = [rng.choice([r".*\.txt", r"[fg]\..*"])]
    elif r < 0.75:
        o["regex"] = True
        o["paths"] = [rng.choice([r".*/sub/.*", r".*/d[0-9]*/.*"])]
    return o


def compile_pats(pats, base, regex, ci, is_path):
    out = []
    for p in pats:
        prefix = ""
        if is_path and not p.startswith("/") and not (regex and p.startswith(".*")) and not p.startswith("**"):
            prefix = base + "/"              # a relative pattern is relative to the working directory, which is taken literally
        out.append(re.compile("^" + re.escape(prefix) + "(?:" + p + ")$", re.S | (re.I if ci else 0)) if regex else glob_re(p, ci, prefix))
    return out


def args_of(o, roots):
    a = ["group"] + roots + ["--rf-over", "0", "-f", "json"]
    if o["depth"] is not None:
        a += ["--depth", str(o["depth"])]
    for k, f in (("hidden", "--hidden"), ("noIgnore", "--no-ignore"), ("follow", "--follow-links"), ("report", "--symbolic-links"), ("oneFs", "--one-fs"),
                 ("regex", "--regex"), ("ci", "--ignore-case")):
        if o[k]:
            a.append(f)
    if o["min"] is not None:
        a += ["--min", str(o["min"])]
    if o["max"] is not None:
        a += ["--max", str(o["max"])]
    for p in o["names"]:
        a += ["--name", p]
    for p in o["paths"]:
        a += ["--path", p]
    for p in o["excludes"]:
        a += ["--exclude", p]
    return a


def one(t):
    k, seed = t
    rng = random.Random(seed)
    tree = Tree(seed, mount=(k % 8 == 0))
    try:
        o = gen_opts(rng, tree)
        # roots: top directories, sometimes nested / repeated / a single file
        roots = [tree.entries[i - 1] for i in rng.sample(tree.tops, rng.randint(1, len(tree.tops)))]
        extra = rng.random()
        sub = [e for e in tree.entries if e["kind"] == "dir" and e["parent"] and e["name"] != ".hid"]
        if extra < 0.2 and sub:
            roots.append(rng.choice(sub))
        elif extra < 0.3:
            roots.append(roots[0])
        elif extra < 0.4:
            files = [e for e in tree.entries if e["kind"] == "file" and not e["name"].startswith(".")]
            if files:
                roots.append(rng.choice(files))
        names = compile_pats(o["names"], tree.base, o["regex"], o["ci"], False)
        paths = compile_pats(o["paths"], tree.base, o["regex"], o["ci"], True)
        excl = compile_pats(o["excludes"], tree.base, o["regex"], o["ci"], True)
        mn = 1 if o["min"] is None else o["min"]
        mx = o["max"]

        def sel(e):
            size = e["size"] if e["kind"] == "file" else (tree.entries[e["target"] - 1]["size"] if e["target"] else 0)
            p = e["path"]
            if size < mn or (mx is not None and size > mx):
                return False
            if names and not any(r.match(e["name"]) for r in names):
                return False
            if paths and not any(r.match(p) for r in paths):
                return False
            if any(r.match(p) for r in excl):
                return False
            return True
        # a link is out of reach when an --exclude pattern prunes one of its ancestor directories (patterns ending in /**); a pattern
        # that merely matches the link's own name (**/*.log) does not stop the walk from following it
        case = {"id": k, "entries": [{"parent": e["parent"], "kind": e["kind"], "hidden": e["name"].startswith("."), "ignBy": tree.ignored_by(e), "sel": sel(e) if e["kind"] in ("file", "link") else False,
                                      "target": e["target"], "dev": e["dev"], "blocked": e["kind"] == "link" and any(r.match(e["path"]) for r, pat in zip(excl, o["excludes"]) if pat.endswith("/**"))} for e in tree.entries],
                "roots": [r["id"] for r in roots], "opts": {"depth": -1 if o["depth"] is None else o["depth"], "hidden": o["hidden"], "noIgnore": o["noIgnore"], "follow": o["follow"],
                                                              "report": o["report"], "oneFs": o["oneFs"]}}
        env = lib.base_env(tree.work)
        args = args_of(o, [os.path.relpath(r["path"], tree.base) for r in roots])
        r = lib.run_fclones(args, tree.base, env, timeout=60)
        got = None
        if r.rc == 0:
            _, groups, _ = gg.parse_json(r.out)
            got = sorted(os.path.relpath(p, tree.base) for g in groups for p in g["paths"])
        return {"k": k, "case": case, "args": args, "rc": r.rc, "stderr": r.err.decode("utf-8", "replace")[-400:], "got": got, "opts": o,
                "paths": {e["id"]: os.path.relpath(e["path"], tree.base) for e in tree.entries}, "timeout": r.timed_out, "panicked": r.panicked,
                "dup": got is not None and len(got) != len(set(got))}
    finally:
        tree.cleanup()


def tlc_eval(cases):
    d = lib.mkscratch("evw", base=lib.BUILD)
    try:
        cf, of = os.path.join(d, "cases.ndjson"), os.path.join(d, "out.ndjson")
        with open(cf, "w") as f:
            for c in cases:
                f.write(json.dumps(c) + "\n")
        res = lib.run_tlc("Eval_Walk.tla", "Eval_Walk.cfg", workers=1, timeout=3000, env={"CASES": cf, "OUT": of}, coverage=False, xss="512m")
        if not res.ok:
            raise lib.ToolError("Eval_Walk failed: " + res.output[-2500:])
        return {json.loads(l)["id"]: json.loads(l)["selected"] for l in open(of)}, res
    finally:
        lib.rmtree(d)


def main(tier):
    chk = lib.Check("C09", tier)
    thorough = tier == "thorough"
    chk.assumptions = ["--depth counted as documented (0: no descent, 1: the given directories only)", "ignore rules limited to the forms name, dir/, *.ext; no directory holds both .gitignore and .fdignore rules for the same entry",
                       "depth limits are not combined with --follow-links (the outcome would depend on the visiting order); hidden roots are not generated",
                       "pattern predicates computed by a reference matcher that is checked against Glob.tla's TLC vectors at every run"]
    nref = self_check(chk)
    lib.build_all()
    rng = random.Random(chk.seed + 9)
    n = 3000 if thorough else 700
    results = lib.pmap(one, [(k, rng.randint(0, 1 << 30)) for k in range(1, n + 1)], workers=12)
    ok = [r for r in results if r["rc"] == 0]
    expected, res = tlc_eval([r["case"] for r in ok])
    chk.add_tlc("Eval_Walk(Selected)", res)
    # the walk as a concurrent procedure: every schedule, on hand-written trees and on the small trees of the runs above
    import wconc
    chk.cov["walkconc_observed_trees"] = wconc.run(chk, [r["case"] for r in ok], 16 if thorough else 14)
    nontrivial = set()
    for r in results:
        o = r["opts"]
        flags = " ".join(a for a in r["args"] if a.startswith("-") and a not in ("--rf-over", "-f"))
        if r["rc"] != 0:
            if "No input files" in r["stderr"] or "Skipping directory" in r["stderr"] and o["depth"] == 0:
                continue            # documented: --depth 0 with directories only
            chk.violation(f"C09/run-failed flags={flags}", f"`group` failed: {r['stderr'][-200:]}", {k: v for k, v in r.items() if k != 'case'})
            continue
        exp = sorted(r["paths"][i] for i in expected[r["k"]])
        got = r["got"]
        if exp:
            nontrivial.add(json.dumps([flags, exp]))
        if r["dup"]:
            chk.violation(f"C09/duplicate flags={flags}", "a file is listed twice", {k: v for k, v in r.items() if k != 'case'})
        if sorted(set(got)) != exp:
            missing = [p for p in exp if p not in set(got)]
            extra = [p for p in got if p not in set(exp)]
            cls = []
            if o["depth"] is not None and extra and not missing:
                cls.append("depth")
            if o["ci"] and (o["paths"] or o["excludes"]) and not o["regex"]:
                cls.append("ignore-case-relative-or-absolute-path-pattern")
            if o["excludes"] and missing:
                cls.append("exclude-pruning")
            if any("ż" in p or "." in os.path.dirname(p) or "-" in p or "(" in p or "+" in p for p in missing) and o["paths"]:
                cls.append("path-pattern-pruning")
            chk.violation(f"C09/selection class={'+'.join(cls) or 'other'} flags={flags}", f"selected set differs from Walk.tla: missing {missing[:5]}, unexpected {extra[:5]} ({' '.join(r['args'][:8])} ...)",
                          {k: v for k, v in r.items() if k != 'case'})
    chk.cov["evaluations"] = len(results)
    chk.cov["traces_validated_against_impl"] = len(ok)
    chk.cov["distinct_nontrivial"] = len(nontrivial)
    chk.cov["reference_matcher_vectors"] = nref
    chk.cov["rule"] = ("seeded trees (2-3 top directories, nesting <= 4, directory names with . - ( + space non-ASCII and hidden ones, files of size 0/1/50/3000, relative/absolute symlinks to "
                       "files, directories, ancestors (cycles) and nowhere, .gitignore/.fdignore with name / dir/ / *.ext rules, a tmpfs mount for --one-fs) x random options (depth, hidden, "
                       "no-ignore, follow-links, symbolic-links, one-fs, min/max, name/path/exclude globs or regexes absolute and cwd-relative, ignore-case) x roots (several, nested, repeated, "
                       "a file); expectation = Walk.tla evaluated by TLC; non-trivial = distinct (options, non-empty expected set)")
    if ok:
        chk.sample({"args": ok[0]["args"], "expected": sorted(ok[0]["paths"][i] for i in expected[ok[0]["k"]]), "got": ok[0]["got"]})
    return chk.finish()


if __name__ == "__main__":
    try:
        sys.exit(main(sys.argv[1] if len(sys.argv) > 1 else "quick"))
    except lib.ToolError as e:
        print("TOOL-ERROR", e, file=sys.stderr)
        sys.exit(2)
