"""C19: the semaphore is safe and live under all interleavings.

 1. TLC checks Semaphore.tla exhaustively (safety invariants + liveness under weak fairness) for closed systems.
 2. TLC (MC_SemaphoreMacro) generates macro-step schedules; each is imposed on the REAL semaphore through the
    hook gates (harness sem-replay); seeded stress runs are added.
 3. The recorded fine-grained traces are validated by TLC against Semaphore.tla (Trace_Semaphore, mode full),
    with the hook-independent observer (holders <= permits, every thread finishes, permits restored).
"""
import json
import os
import re
import subprocess
import sys

import lib

MACRO_CFG = """CONSTANTS
  N = {N}
  MaxSpurious = {spur}
  MaxPairs = {pairs}
  PermitSet = {permits}
  Shape = "{shape}"
SPECIFICATION Spec
INVARIANTS SafetyM NoStuck Emit
CHECK_DEADLOCK FALSE
"""


def gen_schedules(chk, name, N, pairs, permits, shape, spur, simulate=None, depth=60, limit=None):
    cfg = os.path.join(lib.BUILD, f"MC_SemaphoreMacro_{name}.cfg")
    with open(cfg, "w") as f:
        f.write(MACRO_CFG.format(N=N, pairs=pairs, permits=permits, shape=shape, spur=spur))
    res = lib.run_tlc("MC_SemaphoreMacro.tla", cfg, workers=4 if not simulate else 1, timeout=900, simulate=simulate,
                      depth=depth if simulate else None, coverage=False,
                      extra=["-seed", str(chk.seed)] if simulate else [])
    if res.violation:
        raise lib.ToolError(f"macro model {name}: {res.violation}\n{res.output[-2000:]}")
    scheds = []
    seen = set()
    for m in re.finditer(r'^<<"SCHED", (".*")>>$', res.output, re.M):
        s = json.loads(m.group(1))
        if s in seen:
            continue
        seen.add(s)
        scheds.append(s)
        if limit and len(scheds) >= limit:
            break
    chk.add_tlc(f"MC_SemaphoreMacro[{name}]", res)
    return scheds


def classify(chk, problems, mode, trace_file):
    """Turns validation problems into violations / divergences. Returns the runs that need an obs-mode verdict."""
    need_obs = False
    for p in problems:
        run = p["run"]
        reset = run[0] if run else {}
        sig_base = f"permits={reset.get('permits')} prog={json.dumps(reset.get('prog'))}"
        ev = p["event"] if isinstance(p["event"], dict) else {}
        if p["kind"] == "invariant" and p["name"] == "ObsSafety":
            chk.violation(f"C19/holders>permits {sig_base}", "more holders than permits observed on the real semaphore "
                          f"(observer events, line {p['line']})", {"mode": mode, "problem": p})
        elif p["kind"] == "invariant":
            chk.violation(f"C19/spec-invariant {p['name']} {sig_base}", "specification invariant false on a matched behaviour",
                          {"mode": mode, "problem": p})
        elif ev.get("ev") == "End":
            chk.violation(f"C19/lost-wakeup stuck={ev.get('stuck')} {sig_base}",
                          "threads still blocked in acquire at the end of a closed run (generous timeout): lost wake-up / hang",
                          {"mode": mode, "problem": p})
        elif ev.get("ev") == "Probe":
            chk.violation(f"C19/not-restored got={ev.get('got')} {sig_base}",
                          "after all guards were dropped the permit count is not the expected one", {"mode": mode, "problem": p})
        else:
            chk.divergences += 1
            print(f"DIVERGENCE property=C19 line={p['line']} event={json.dumps(ev)} ({sig_base})")
            need_obs = True
    return need_obs


def main(tier):
    chk = lib.Check("C19", tier)
    chk.assumptions = ["mutex and condition variable of std behave as specified (atomic unlock+wait, notify_one wakes one waiter or nobody)",
                       "a thread that makes no progress for 3 s (normal step: microseconds) is stuck",
                       "forced schedules are at macro-step grain (hook gates only where no lock is held); which waiter the OS wakes is observed, not forced"]
    thorough = tier == "thorough"
    # 1. the model
    res = lib.run_tlc("MC_Semaphore.tla", "MC_Semaphore_thorough.cfg" if thorough else "MC_Semaphore_quick.cfg",
                      workers=12 if thorough else 8, timeout=3000 if thorough else 600, xmx="16g")
    chk.add_tlc("MC_Semaphore(safety+liveness)", res)
    if res.violation:
        chk.violation(f"C19/model {res.violation}", "the specification itself violates " + res.violation, {"tlc": res.output[-3000:]})
        return chk.finish()
    missing = [a for a in ["AcqEnter", "AcqFirstSleep", "AcqFirstTake", "AcqWake", "AcqReSleep", "AcqReTake", "RelStart", "RelInc",
                           "RelMid", "RelNotify", "RelEnd", "Hand", "Spurious"] if res.coverage.get(a, (0, 0))[1] == 0]
    if missing:
        raise lib.ToolError(f"vacuity: actions never taken in MC_Semaphore: {missing}")
    # 2. schedules
    scheds = []
    scheds += gen_schedules(chk, "n2p2", 2, 2, "{1}", "all", 1)
    scheds += gen_schedules(chk, "n3p1", 3, 1, "{1, 2}", "all", 1)
    scheds += gen_schedules(chk, "n3p2sim", 3, 2, "{1, 2}", "all", 1, simulate=1500 if thorough else 300)
    scheds += gen_schedules(chk, "n4p2sim", 4, 2, "{1, 2}", "all", 2, simulate=3000 if thorough else 400, depth=90)
    if thorough:
        scheds += gen_schedules(chk, "n3p2", 3, 2, "{1}", "pairs", 0, limit=40000)
    lib.build_all()
    work = lib.mkscratch("c19")
    try:
        sched_file = os.path.join(work, "sched.ndjson")
        with open(sched_file, "w") as f:
            for s in scheds:
                f.write(s + "\n")
        trace_file = os.path.join(work, "trace.ndjson")
        r = subprocess.run([lib.HARNESS, "sem-replay", sched_file, trace_file, "10", "1500" if thorough else "240", "6"], capture_output=True, text=True, timeout=3600)
        if r.returncode != 0:
            raise lib.ToolError("harness sem-replay failed: " + r.stderr[-2000:])
        stress_file = os.path.join(work, "stress.ndjson")
        r = subprocess.run([lib.HARNESS, "sem-stress", str(chk.seed), str(3000 if thorough else 400), stress_file],
                           capture_output=True, text=True, timeout=3600)
        if r.returncode != 0:
            raise lib.ToolError("harness sem-stress failed: " + r.stderr[-2000:])
        total_runs = 0
        forced_sleep = forced_resleep = 0
        for tf, label in ((trace_file, "forced"), (stress_file, "stress")):
            with open(tf) as f:
                txt = f.read()
            forced_sleep += txt.count('"ev":"AcqSleep"')
            forced_resleep += len(re.findall(r'"ev":"AcqWake","t":(\d+)\}\n\{"count":-?\d+,"ev":"AcqSleep","t":\1\}', txt))
            problems, stats = lib.validate_traces("Trace_Semaphore.tla", "Trace_Semaphore_full.cfg", tf)
            chk.cov["states"] += stats["states"]
            chk.cov["transitions"] += stats["generated"]
            total_runs += stats["runs"]
            need_obs = classify(chk, problems, "full", tf)
            if need_obs:
                problems2, stats2 = lib.validate_traces("Trace_Semaphore.tla", "Trace_Semaphore_obs.cfg", tf)
                classify(chk, [p for p in problems2 if p["kind"] == "invariant" or (isinstance(p["event"], dict) and p["event"].get("ev") in ("End", "Probe"))], "obs", tf)
            chk.cov.setdefault("trace_files", []).append({"kind": label, "runs": stats["runs"], "events": stats["events"],
                                                          "problems": len(problems)})
        with open(trace_file) as f:
            sample = []
            for line in f:
                sample.append(json.loads(line))
                if len(sample) > 1 and sample[-1].get("ev") in ("End", "Probe") and len(sample) > 12:
                    break
        chk.sample({"schedule": json.loads(scheds[len(scheds) // 2]), "note": "TLC-generated macro schedule imposed on the real semaphore"})
        chk.sample({"recorded_trace_of_first_run": sample[:40]})
        chk.cov["traces_validated_against_impl"] = total_runs
        chk.cov["evaluations"] = total_runs
        chk.cov["distinct_nontrivial"] = len(set(scheds))
        chk.cov["rule"] = ("forced runs = distinct TLC macro schedules (exhaustive for 2 threads x 2 pairs and 3 threads x 1 pair, "
                           "simulation beyond) + seeded stress runs; non-trivial = distinct schedule; "
                           f"contention actually exercised: {forced_sleep} AcqSleep events, {forced_resleep} wake-then-sleep-again (stolen permit / spurious)")
        chk.cov["sleep_events"] = forced_sleep
        chk.cov["resleep_events"] = forced_resleep
        if forced_sleep == 0:
            raise lib.ToolError("vacuity: no run ever blocked in acquire")
    finally:
        lib.rmtree(work)
    # 3. the semaphores inside fclones, driven by the repository's own unit tests (throttle semaphores of rehash, open-files limit)
    import utrace
    evs, summary = utrace.record(timeout=300)
    if evs is None:
        print(f"NOTE property=C19 unit-test traces not available: {summary}")
        chk.cov["unit_test_traces"] = {"available": False, "why": summary}
    else:
        ok = utrace.validate_semaphores(chk, evs, "unit tests of /repo")
        chk.cov["unit_test_traces"] = {"available": True, "tests": summary, "events": len(evs), "semaphore_segments_accepted": ok,
                                       "sleeps": sum(1 for e in evs if e["ev"] == "AcqSleep")}
    return chk.finish()


if __name__ == "__main__":
    try:
        sys.exit(main(sys.argv[1] if len(sys.argv) > 1 else "quick"))
    except lib.ToolError as e:
        print("TOOL-ERROR", e, file=sys.stderr)
        sys.exit(2)
