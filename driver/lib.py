"""Shared layer of the fclones verification driver (stdlib only).

 - builds (fclones binary with hooks from /repo's working tree, harness, shim), serialized by a lock file
 - TLC runner and output parser
 - file-system inventories / projection, scenario materialisation helpers
 - evidence, replay files, known findings, verdict printing
"""
import concurrent.futures as cf
import contextlib
import fcntl
import hashlib
import json
import os
import re
import shutil
import stat
import subprocess
import sys
import tempfile
import time

VERIF = os.path.dirname(os.path.dirname(os.path.abspath(__file__)))
REPO = os.environ.get("VERIF_REPO", "/repo")
BUILD = os.path.join(VERIF, ".build")
SPEC = os.path.join(VERIF, "spec")
TARGET = os.path.join(BUILD, "target")
FCLONES = os.path.join(TARGET, "debug", "fclones")
HARNESS = os.path.join(TARGET, "debug", "vharness")
SHIM = os.path.join(BUILD, "fsshim.so")
RUSTFLAGS = "--cfg fclones_verif --check-cfg cfg(fclones_verif)"
TLA_CP = "/opt/veriftools/tla/tla2tools.jar:/opt/veriftools/tla/CommunityModules-deps.jar"
NCPU = os.cpu_count() or 4
OLD_MTIME = 1577880000  # 2020-01-01 12:00:00 UTC: scenario files are old unless a scenario says otherwise


class ToolError(Exception):
    """Failure of the machinery itself (build, TLC crash, timeout of a tool): exit status 2, never a VIOLATION."""


def log(*a):
    print(*a, file=sys.stderr, flush=True)


@contextlib.contextmanager
def build_lock():
    os.makedirs(BUILD, exist_ok=True)
    with open(os.path.join(BUILD, ".lock"), "w") as f:
        fcntl.flock(f, fcntl.LOCK_EX)
        try:
            yield
        finally:
            fcntl.flock(f, fcntl.LOCK_UN)


def _cargo_env():
    env = dict(os.environ)
    env["RUSTFLAGS"] = RUSTFLAGS
    env["CARGO_NET_OFFLINE"] = "true"
    env.pop("FCLONES_VERIF_TRACE", None)
    return env


def build_shim():
    with build_lock():
        src = os.path.join(VERIF, "shim", "fsshim.c")
        if not os.path.exists(SHIM) or os.path.getmtime(SHIM) < os.path.getmtime(src):
            r = subprocess.run(["gcc", "-O1", "-shared", "-fPIC", "-o", SHIM + ".tmp", src, "-ldl", "-lpthread"],
                               capture_output=True, text=True)
            if r.returncode != 0:
                raise ToolError("shim build failed:\n" + r.stderr)
            os.replace(SHIM + ".tmp", SHIM)        # atomic: processes that have the old library mapped keep it
    return SHIM


def build_all(harness=True):
    """Builds the fclones binary (and the harness) from /repo's current working tree with the hooks enabled."""
    build_shim()
    with build_lock():
        hdir = os.path.join(VERIF, "harness")
        lock_src = os.path.join(REPO, "Cargo.lock")
        lock_dst = os.path.join(hdir, "Cargo.lock")
        if not os.path.exists(lock_dst):
            shutil.copy(lock_src, lock_dst)
        cmd = ["cargo", "build", "--offline", "--target-dir", TARGET, "-p", "fclones", "--bins"]
        if harness:
            cmd += ["-p", "vharness"]
        t0 = time.time()
        r = subprocess.run(cmd, cwd=hdir, env=_cargo_env(), capture_output=True, text=True)
        if r.returncode != 0:
            raise ToolError("cargo build failed:\n" + r.stderr[-4000:])
        log(f"[build] ok in {time.time()-t0:.1f}s")
    return FCLONES


# ----------------------------------------------------------------------------------------------
# TLC
# ----------------------------------------------------------------------------------------------

class TlcResult:
    def __init__(self):
        self.ok = False
        self.generated = 0
        self.distinct = 0
        self.violation = None     # name of violated invariant/property, or "deadlock", "assumption", ...
        self.output = ""
        self.prints = []          # values printed by PrintT / Print (raw text lines)
        self.coverage = {}        # action name -> (distinct, total)
        self.wall = 0.0
        self.depth = 0


def run_tlc(module, cfg=None, workers=None, timeout=600, env=None, simulate=None, depth=None, coverage=True,
            xmx="8g", deque=False, cwd=SPEC, extra=(), xss=None):
    """Runs TLC on spec/<module>.tla with spec/<cfg>. Raises ToolError on crashes / timeouts."""
    meta = tempfile.mkdtemp(prefix="tlc_", dir=BUILD)
    # a private java.io.tmpdir: TLC unpacks its standard modules there; nothing is shared with (or cleaned up under) other TLC runs
    jtmp = os.path.join(meta, "jtmp")
    os.makedirs(jtmp)
    jopts = ["-XX:+UseParallelGC", f"-Xmx{xmx}", f"-Djava.io.tmpdir={jtmp}"]
    if xss:
        jopts.append(f"-Xss{xss}")
    if deque:
        jopts.append("-Dtlc2.tool.queue.IStateQueue=StateDeque")
    cmd = ["java"] + jopts + ["-cp", TLA_CP, "tlc2.TLC", "-metadir", meta, "-cleanup", "-noGenerateSpecTE",
                              "-workers", str(workers or min(8, NCPU))]
    if cfg:
        cmd += ["-config", cfg]
    if coverage:
        cmd += ["-coverage", "1"]
    if simulate:
        cmd += ["-simulate", f"num={simulate}"]
    if depth:
        cmd += ["-depth", str(depth)]
    cmd += list(extra)
    cmd += [module]
    e = dict(os.environ)
    e.pop("JAVA_TOOL_OPTIONS", None)
    if env:
        e.update(env)
    t0 = time.time()
    res = TlcResult()
    try:
        r = subprocess.run(cmd, cwd=cwd, env=e, capture_output=True, text=True, timeout=timeout)
    except subprocess.TimeoutExpired:
        shutil.rmtree(meta, ignore_errors=True)
        raise ToolError(f"TLC timeout after {timeout}s on {module}/{cfg}")
    finally:
        shutil.rmtree(meta, ignore_errors=True)
        for d in os.listdir("/tmp"):
            pass
    res.wall = time.time() - t0
    out = r.stdout + r.stderr
    res.output = out
    m = None
    for m in re.finditer(r"(\d+) states generated, (\d+) distinct states found", out):
        pass
    if m:
        res.generated, res.distinct = int(m.group(1)), int(m.group(2))
    m = re.search(r"The depth of the complete state graph search is (\d+)", out)
    if m:
        res.depth = int(m.group(1))
    for m in re.finditer(r"^<(\w+) line \d+, col \d+ to line \d+, col \d+ of module (\w+)>: (\d+):(\d+)", out, re.M):
        res.coverage[m.group(1)] = (int(m.group(3)), int(m.group(4)))
    m = re.search(r"Invariant (\w+) is violated", out)
    if m:
        res.violation = m.group(1)
    elif re.search(r"Temporal properties were violated", out):
        res.violation = "temporal"
    elif "Deadlock reached" in out:
        res.violation = "deadlock"
    elif re.search(r"Assumption .* is false", out):
        res.violation = "assumption"
    elif re.search(r"Action property (\w+) is violated", out):
        res.violation = re.search(r"Action property (\w+) is violated", out).group(1)
    elif re.search(r"Postcondition \w+ .* is false", out):
        res.violation = "postcondition"
    elif re.search(r"The first argument of Assert evaluated to FALSE", out):
        res.violation = "assert"
    finished = "Model checking completed. No error has been found." in out or (
        simulate and ("Simulation" in out or "simulation" in out))
    res.ok = bool(finished) and res.violation is None
    if not res.ok and res.violation is None:
        # parse / semantic / runtime error of the tool
        if r.returncode != 0 or "Error:" in out:
            raise ToolError(f"TLC failed on {module}/{cfg} (rc={r.returncode}):\n" + out[-3000:])
    return res


def tlc_prints(out, tag):
    """Extracts values printed as <<"TAG", "json text">> by PrintT; returns list of decoded JSON values."""
    vals = []
    pat = re.compile(r'^<<"' + re.escape(tag) + r'", (".*")>>$', re.M)
    for m in pat.finditer(out):
        s = m.group(1)
        # TLC prints a TLA+ string: backslash-escaped quotes and backslashes
        try:
            inner = json.loads(s)
        except Exception:
            inner = s[1:-1].replace('\\"', '"').replace("\\\\", "\\")
        try:
            vals.append(json.loads(inner))
        except Exception:
            vals.append(inner)
    return vals


def cleanup_tmp():
    """Nothing to do: every TLC run has its own temporary directory under .build (see run_tlc), removed with the run."""


# ----------------------------------------------------------------------------------------------
# file-system helpers
# ----------------------------------------------------------------------------------------------

def sha(path):
    h = hashlib.sha256()
    with open(path, "rb") as f:
        while True:
            b = f.read(1 << 20)
            if not b:
                break
            h.update(b)
    return h.hexdigest()[:16]


def inventory(root, with_times=False):
    """{relative path (bytes->latin1 str): record}. Records: type f/d/l/o, ino (dev,ino), target, len, sha, mtime_ns."""
    inv = {}
    rootb = os.fsencode(root)

    def rec(pb):
        st = os.lstat(pb)
        rel = os.fsdecode(os.path.relpath(pb, rootb)) if pb != rootb else "."
        if stat.S_ISLNK(st.st_mode):
            r = {"t": "l", "target": os.fsdecode(os.readlink(pb))}
        elif stat.S_ISDIR(st.st_mode):
            r = {"t": "d"}
        elif stat.S_ISREG(st.st_mode):
            r = {"t": "f", "ino": f"{st.st_dev}:{st.st_ino}", "len": st.st_size, "sha": sha(pb), "nlink": st.st_nlink}
        else:
            r = {"t": "o"}
        if with_times:
            r["mtime"] = st.st_mtime_ns
        inv[rel] = r
        if stat.S_ISDIR(st.st_mode):
            for n in sorted(os.listdir(pb)):
                rec(os.path.join(pb, n))

    if os.path.lexists(rootb):
        rec(rootb)
    return inv


def read_through(root, rel):
    """Bytes read through a path (following symlinks), or None."""
    p = os.path.join(os.fsencode(root), os.fsencode(rel))
    try:
        with open(p, "rb") as f:
            return f.read()
    except OSError:
        return None


def set_old(path, t=OLD_MTIME):
    os.utime(path, (t, t), follow_symlinks=False)


def write_file(path, data, mtime=OLD_MTIME):
    os.makedirs(os.path.dirname(path), exist_ok=True)
    with open(path, "wb") as f:
        f.write(data)
    os.utime(path, (mtime, mtime))


def mkscratch(prefix="v", base="/dev/shm"):
    return tempfile.mkdtemp(prefix=prefix + "_", dir=base)


def rmtree(p):
    def onerr(func, path, exc):
        try:
            os.chmod(os.path.dirname(path), 0o700)
            os.chmod(path, 0o700)
            func(path)
        except Exception:
            pass
    shutil.rmtree(p, onerror=onerr)


def base_env(scratch, trace=None, disk_kind=None):
    """Private HOME / cache / tmp for one fclones run."""
    home = os.path.join(scratch, "_home")
    tmp = os.path.join(scratch, "_tmp")
    os.makedirs(home, exist_ok=True)
    os.makedirs(tmp, exist_ok=True)
    env = {"PATH": os.environ.get("PATH", "/usr/bin:/bin"), "HOME": home, "XDG_CACHE_HOME": os.path.join(home, ".cache"),
           "XDG_CONFIG_HOME": os.path.join(home, ".config"), "TMPDIR": tmp, "LANG": "C.UTF-8", "RUST_BACKTRACE": "0",
           "NO_COLOR": "1"}
    if trace:
        env["FCLONES_VERIF_TRACE"] = trace
    if disk_kind:
        env["FCLONES_VERIF_DISK_KIND"] = disk_kind
    return env


def shim_env(env, log_path=None, root=None, plan=None, emuclone=False):
    e = dict(env)
    e["LD_PRELOAD"] = SHIM
    if log_path:
        e["FSSHIM_LOG"] = log_path
    if root:
        e["FSSHIM_ROOT"] = root
    if plan:
        e["FSSHIM_PLAN"] = plan
    if emuclone:
        e["FSSHIM_EMUCLONE"] = "1"
    return e


class Run:
    def __init__(self, rc, out, err, timed_out=False):
        self.rc, self.out, self.err, self.timed_out = rc, out, err, timed_out

    @property
    def panicked(self):
        return b"panicked at" in self.err or self.rc in (101, 134, -6)


def run_fclones(args, cwd, env, stdin=None, timeout=60, binary=None):
    try:
        r = subprocess.run([binary or FCLONES] + list(args), cwd=cwd, env=env, input=stdin, capture_output=True, timeout=timeout)
        return Run(r.returncode, r.stdout, r.stderr)
    except subprocess.TimeoutExpired as e:
        return Run(-999, e.stdout or b"", e.stderr or b"", timed_out=True)


def read_shim_log(path):
    evs = []
    if not os.path.exists(path):
        return evs
    with open(path, "rb") as f:
        for line in f:
            line = line.strip()
            if not line:
                continue
            try:
                e = json.loads(line)
            except Exception:
                continue
            for k in ("p1", "p2"):
                if isinstance(e.get(k), str):
                    e[k] = os.fsdecode(e[k].encode("latin-1"))     # the shim writes one \u00XX per byte
            evs.append(e)
    evs.sort(key=lambda e: e.get("seq", 0))
    return evs


def printable(p):
    """Injective printable ASCII form of a path given as fs-decoded str (bytes outside 0x21..0x7e and '<' become <xx>)."""
    b = os.fsencode(p)
    return "".join(chr(c) if 0x21 <= c <= 0x7e and c not in (0x3c, 0x22, 0x5c) else "<%02x>" % c for c in b)


def pmap(fn, items, workers=None):
    with cf.ThreadPoolExecutor(max_workers=workers or NCPU) as ex:
        return list(ex.map(fn, items))


# ----------------------------------------------------------------------------------------------
# evidence / verdicts
# ----------------------------------------------------------------------------------------------

def load_known():
    p = os.path.join(VERIF, "known_findings.json")
    if not os.path.exists(p):
        return []
    return json.load(open(p)).get("findings", [])


class Check:
    """Collects the results of one check run and writes evidence / replays / verdict lines."""

    def __init__(self, pid, tier, level="model_checking"):
        self.pid, self.tier, self.level = pid, tier, level
        self.seed = int(os.environ.get("VERIF_SEED", "1"))
        self.t0 = time.time()
        self.cov = {"states": 0, "transitions": 0, "traces_validated_against_impl": 0, "samples": [], "evaluations": 0,
                    "distinct_nontrivial": 0, "rule": "", "tlc_runs": []}
        self.assumptions = []
        self.violations = []       # (signature, description, replay dict)
        self.known_hits = []
        self.divergences = 0
        self.known = [k for k in load_known() if k.get("property") == pid and k.get("status", "open") == "open"]
        os.makedirs(os.path.join(VERIF, "replays"), exist_ok=True)
        for old in os.listdir(os.path.join(VERIF, "replays")):
            if old.startswith(pid + "-"):
                os.remove(os.path.join(VERIF, "replays", old))
        os.makedirs(os.path.join(VERIF, "evidence"), exist_ok=True)

    def add_tlc(self, name, res):
        self.cov["states"] += res.distinct
        self.cov["transitions"] += res.generated
        self.cov["tlc_runs"].append({"config": name, "distinct_states": res.distinct, "states_generated": res.generated,
                                     "depth": res.depth, "wall_s": round(res.wall, 1),
                                     "actions_covered": {k: v[1] for k, v in res.coverage.items()} if len(res.coverage) < 60 else len(res.coverage)})

    def sample(self, s, limit=3):
        if len(self.cov["samples"]) < limit:
            self.cov["samples"].append(s)

    def violation(self, signature, desc, replay):
        """signature: stable string identifying the failing input / call site, matched against known_findings.json."""
        for k in self.known:
            if re.search(k["match"], signature):
                if k["id"] not in [h[0] for h in self.known_hits]:
                    self.known_hits.append((k["id"], k["what"], signature))
                return False
        n = len(self.violations) + 1
        path = os.path.join(VERIF, "replays", f"{self.pid}-{n}.json")
        if n <= 20:
            with open(path, "w") as f:
                json.dump({"property": self.pid, "signature": signature, "description": desc, "replay": replay}, f, indent=1, default=str)
        self.violations.append((signature, desc, path))
        return True

    def finish(self):
        self.cov["divergences"] = self.divergences
        ev = {"property_id": self.pid, "tier": self.tier, "seed": self.seed, "level": self.level, "coverage": self.cov,
              "assumptions": self.assumptions, "wall_s": round(time.time() - self.t0, 1), "violations": len(self.violations),
              "known_findings_hit": [h[0] for h in self.known_hits]}
        with open(os.path.join(VERIF, "evidence", f"{self.pid}.json"), "w") as f:
            json.dump(ev, f, indent=1, default=str)
        for kid, what, sig in self.known_hits:
            print(f"KNOWN-FINDING: property={self.pid} {kid}: {what}")
        seen = set()
        for sig, desc, path in self.violations:
            if sig in seen:
                continue
            seen.add(sig)
            if len(seen) > 20:
                break
            print(f"VIOLATION property={self.pid} replay={path}")
            print(f"  # {sig}: {desc}")
        cleanup_tmp()
        if self.violations:
            return 1
        print(f"OK property={self.pid} tier={self.tier} states={self.cov['states']} traces={self.cov['traces_validated_against_impl']} "
              f"evaluations={self.cov['evaluations']} wall={ev['wall_s']}s")
        return 0


# ----------------------------------------------------------------------------------------------
# batched trace validation
# ----------------------------------------------------------------------------------------------

def validate_traces(module, cfg, trace_path, max_problems=5, timeout=600, reset_ev="Reset", xmx="4g"):
    """Validates an ndjson trace file (many runs separated by Reset events) against spec/<module> with <cfg>.
    Returns (problems, stats): problems = list of dicts {kind: 'rejected'|'invariant', name, line, event, run_start, run_lines};
    TLC stops at the first problem, so the file is cut after the offending run and validation is repeated."""
    with open(trace_path) as f:
        lines = f.readlines()
    reset_re = re.compile(r'"ev": ?"' + reset_ev + '"')

    def is_reset(x):
        return reset_re.search(x) is not None

    problems = []
    offset = 0
    stats = {"states": 0, "generated": 0, "runs": 0, "events": len(lines)}
    work = trace_path
    tmpfiles = []
    try:
        while True:
            if not lines[offset:]:
                break
            if offset > 0:
                work = trace_path + f".part{len(tmpfiles)}"
                with open(work, "w") as f:
                    f.writelines(lines[offset:])
                tmpfiles.append(work)
            res = run_tlc(module, cfg, workers=1, timeout=timeout, env={"TRACE": work}, coverage=False, deque=True,
                          xss="1g", xmx=xmx)
            stats["states"] += res.distinct
            stats["generated"] += res.generated
            if res.ok:
                break
            m = re.search(r'<<"REJECTED", (\d+), (".*")>>', res.output)
            mi = re.search(r'<<"INVFAIL", "(\w+)", (\d+)>>', res.output)
            if mi:
                rel = int(mi.group(2))
                kind, name = "invariant", mi.group(1)
            elif m:
                rel = int(m.group(1))
                kind, name = "rejected", "no spec behaviour"
            else:
                raise ToolError(f"trace validation of {trace_path} with {cfg} failed unexpectedly:\n" + res.output[-3000:])
            absline = offset + rel            # 1-based line in the original file
            absline = min(absline, len(lines))
            # locate run
            start = absline
            while start > 1 and not is_reset(lines[start - 1]):
                start -= 1
            end = absline + 1
            while end <= len(lines) and not is_reset(lines[end - 1]):
                end += 1
            try:
                ev = json.loads(lines[absline - 1])
            except Exception:
                ev = lines[absline - 1]
            problems.append({"kind": kind, "name": name, "line": absline, "event": ev, "run_start": start,
                             "run": [json.loads(x) for x in lines[start - 1:end - 1]][:400]})
            if len(problems) >= max_problems:
                break
            offset = end - 1
    finally:
        for t in tmpfiles:
            try:
                os.remove(t)
            except OSError:
                pass
    stats["runs"] = sum(1 for x in lines if is_reset(x))
    return problems, stats
