INIT Init
NEXT Next
