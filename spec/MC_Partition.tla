---------------------------- MODULE MC_Partition ----------------------------
(* Exhaustive check of the consequences of Partition.tla over a small universe of cases.          *)
EXTENDS Partition, TLC
CONSTANTS K, PrioSet, WithDrop
VARIABLES c, stage
Inos == {f \in [1..K -> 1..K] : f[1] = 1 /\ \A i \in 2..K : f[i] <= 1 + Max({f[j] : j \in 1..(i - 1)})}   \* canonical numbering
Dummy == [files |-> <<>>, cliN |-> 0, hdrN |-> 1, cliRoots |-> FALSE, hdrIsolate |-> FALSE, cliLinks |-> FALSE, hdrLinks |-> FALSE, useDrop |-> FALSE, prios |-> <<>>]
Init == c = Dummy /\ stage = 0
\* two stages so that TLC's workers share the evaluation of the cases
Pick1 == /\ stage = 0 /\ stage' = 1
         /\ \E ino \in Inos, root \in [1..K -> 0..1], n \in 0..2, r \in BOOLEAN, l \in BOOLEAN, d \in (IF WithDrop THEN BOOLEAN ELSE {FALSE}),
               ps \in {<<>>} \cup {<<p>> : p \in PrioSet} \cup {<<p, q>> : p \in PrioSet, q \in PrioSet} :
               c' = [Dummy EXCEPT !.files = [i \in 1..K |-> [ino |-> ino[i], root |-> root[i], mt |-> 1, at |-> 1, cr |-> 1, ct |-> 1, nest |-> 1, kp |-> FALSE, dp |-> TRUE]],
                                  !.cliN = n, !.cliRoots = r, !.cliLinks = l, !.useDrop = d, !.prios = ps]
Pick2 == /\ stage = 1 /\ stage' = 2
         /\ \E mt \in [1..K -> 1..2], nest1 \in 1..2, kp \in [1..K -> BOOLEAN], dp \in [1..K -> BOOLEAN] :
               /\ \A i, j \in 1..K : c.files[i].ino = c.files[j].ino => mt[i] = mt[j]
               /\ (~c.useDrop => \A i \in 1..K : dp[i])
               /\ c' = [c EXCEPT !.files = [i \in 1..K |-> [c.files[i] EXCEPT !.mt = mt[i], !.nest = IF i = 1 THEN nest1 ELSE 1, !.kp = kp[i], !.dp = dp[i]]]]
Next == Pick1 \/ Pick2
\* the dropped sub-groups are exactly the lowest-ranked unprotected ones
DroppedIsTail == LET s == Split(c)  r == Ranked(c) IN
                   \A i \in 1..Len(r), j \in 1..Len(r) :
                       (i < j /\ ~Protected(c, s.sgs[r[i]]) /\ ~Protected(c, s.sgs[r[j]]) /\ r[i] \in {s.dropped[k] : k \in 1..Len(s.dropped)})
                            => r[j] \in {s.dropped[k] : k \in 1..Len(s.dropped)}
Inv == stage = 2 => (Theorems(c) /\ DroppedIsTail)
=============================================================================
