------------------------------ MODULE DedupeObs ------------------------------
(* The statements of C02 (and the shared part of C04/C11) as predicates over an OBSERVED run of a    *)
(* dedupe command: the inventories before and after, the report it consumed and its configuration.   *)
(* A run r is a record:                                                                              *)
(*   op        "remove" | "hard" | "soft" | "reflink" | "move"                                        *)
(*   pre, post sequences of entries [p, k ("file"|"link"|"dir"|"other"), ino, c, mt, to]             *)
(*   groups    sequence of [paths: Seq(path), case: the Partition.tla case of the group (files in    *)
(*             the same order as paths)]                                                            *)
(*   reads0, reads1  sequences [f, v]: content read THROUGH every reported path before / after       *)
(*   moved     sequences [f, v]: content readable at the expected move target of f afterwards         *)
(*   mvfiles   contents of the regular files under the move target directory afterwards                *)
EXTENDS Partition

RangeOf(s) == {s[i] : i \in 1..Len(s)}
MapOf(pairs) == [q \in {x.f : x \in RangeOf(pairs)} |-> (CHOOSE x \in RangeOf(pairs) : x.f = q).v]
EntryOf(S, p) == CHOOSE e \in RangeOf(S) : e.p = p
Paths(S) == {e.p : e \in RangeOf(S)}
Reported(r) == UNION {RangeOf(r.groups[g].paths) : g \in 1..Len(r.groups)}
RegularContents(S) == {e.c : e \in {x \in RangeOf(S) : x.k = "file"}}
Same(r, p) == p \in Paths(r.pre) /\ p \in Paths(r.post) /\ EntryOf(r.pre, p) = EntryOf(r.post, p)

\* every distinct content that was stored in a regular file is still stored in a regular file
ContentKept(r) == RegularContents(r.pre) \subseteq RegularContents(r.post)

\* max(1, n) replicas (sub-groups) of every group - all of them if there are fewer - are completely untouched
UntouchedSubGroups(r, g) == LET c == r.groups[g].case  sgs == SubGroups(c) IN
    {k \in 1..Len(sgs) : \A j \in 1..Len(sgs[k]) : Same(r, r.groups[g].paths[sgs[k][j]])}
ReplicasUntouched(r) == \A g \in 1..Len(r.groups) :
    LET c == r.groups[g].case IN Cardinality(UntouchedSubGroups(r, g)) >= Min2(EffN(c), Len(SubGroups(c)))

\* nothing outside the reported groups is modified (for move: apart from what appears under the target directory)
OutsideUntouched(r) == \A p \in Paths(r.pre) : (p \notin Reported(r) /\ EntryOf(r.pre, p).k # "dir") => Same(r, p)

\* link / reflink: every original path still exists and reads back the same bytes
LinkOpsPreserveReads(r) == r.op \in {"hard", "soft", "reflink"} =>
    \A p \in Reported(r) : p \in DOMAIN MapOf(r.reads1) /\ MapOf(r.reads1)[p] = MapOf(r.reads0)[p]

\* move: the bytes of every path that disappeared are readable under the target directory: at the mapped target of
\* the path or - for a reported symbolic link, which is moved as a link - in a regular file under the target directory or, when
\* the link's target itself could not be moved (collision, lock), in the regular file that was left in place
MoveKeepsBytes(r) == r.op = "move" =>
    \A p \in Reported(r) : (p \notin Paths(r.post)) =>
        \/ (p \in DOMAIN MapOf(r.moved) /\ MapOf(r.moved)[p] = MapOf(r.reads0)[p])
        \/ (EntryOf(r.pre, p).k = "link" /\ (MapOf(r.reads0)[p] \in RangeOf(r.mvfiles) \/ MapOf(r.reads0)[p] \in RegularContents(r.post)))

Verdict(r) == [id |-> r.id, ContentKept |-> ContentKept(r), ReplicasUntouched |-> ReplicasUntouched(r), OutsideUntouched |-> OutsideUntouched(r),
               LinkOpsPreserveReads |-> LinkOpsPreserveReads(r), MoveKeepsBytes |-> MoveKeepsBytes(r)]
=============================================================================
