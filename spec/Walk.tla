-------------------------------- MODULE Walk --------------------------------
(* C09: which files `fclones group` considers, written from the documentation.                           *)
(* A case c has: entries (sequence of records [parent, kind ("file"|"dir"|"link"|"other"), hidden, ign,    *)
(* sel, target, dev]) - entry ids are the indices; parent = 0 for entries outside every other entry;       *)
(* ignBy = the directories whose ignore file has a rule matching the entry's name (not only ancestors: with --follow-links the   *)
(* ignore files of the ROUTE by which an entry is reached are in effect); sel = the file passes the size and pattern filters          *)
(* (for a link reported with --symbolic-links: evaluated on the link's own path, size of its target);       *)
(* target = the entry a link points to (0 = dangling); dev = file system of the entry; blocked = the link     *)
(* lies in a directory that an --exclude pattern (a "subtree" pattern) prunes, so the walk never gets to it.      *)
(* roots (sequence of entry ids, in the order given); opts: depth (-1 = unlimited), hidden, noIgnore,        *)
(* follow (--follow-links), report (--symbolic-links), oneFs.                                                *)
(*   depth as documented: 0 = no descent, 1 = only the given directories, ...                               *)
(*   links: ignored by default; --symbolic-links reports links to files as the links themselves;             *)
(*   --follow-links follows links (with --symbolic-links only links to directories) and reports what is     *)
(*   found under the target; a dangling link is skipped; every file is reported at most once.                *)
EXTENDS Integers, Sequences, FiniteSets, TLC

Ids(c) == 1..Len(c.entries)
Children(c, d) == {e \in Ids(c) : c.entries[e].parent = d}
\* an ignore file takes effect only if its directory is entered by the walk (it is at or below an input path) on the route to the
\* entry; an entry reachable by several routes is reported if it passes on at least one of them (Selected is the union over routes)
Skipped(c, e, seen) == (c.entries[e].hidden /\ ~c.opts.hidden) \/ (~c.opts.noIgnore /\ \E i \in 1..Len(c.entries[e].ignBy) : c.entries[e].ignBy[i] \in seen)

\* Visit(c, e, level, dev0, seen): the set of reported entry ids when the walk arrives at entry e on `level`;
\* seen = the directories already entered on the way (a link back to one of them closes a cycle: nothing new there)
RECURSIVE Visit(_, _, _, _, _)
Visit(c, e, level, dev0, seen) ==
    LET en == c.entries[e] IN
    IF Skipped(c, e, seen) THEN {}
    ELSE CASE en.kind = "file" -> IF en.sel THEN {e} ELSE {}
           [] en.kind = "dir" ->
                 IF (c.opts.depth >= 0 /\ level >= c.opts.depth) \/ (c.opts.oneFs /\ en.dev # dev0) \/ e \in seen THEN {}
                 ELSE UNION {Visit(c, ch, level + 1, dev0, seen \cup {e}) : ch \in Children(c, e)}
           [] en.kind = "link" ->
                 IF en.target = 0 \/ ~(c.opts.follow \/ c.opts.report) THEN {}
                 ELSE IF c.opts.report /\ c.entries[en.target].kind = "file" THEN (IF en.sel THEN {e} ELSE {})
                 ELSE IF c.opts.follow /\ ~en.blocked /\ (~c.opts.oneFs \/ c.entries[en.target].dev = dev0)
                      THEN Visit(c, en.target, level, dev0, seen)
                      ELSE {}
           [] OTHER -> {}

Selected(c) == UNION {Visit(c, c.roots[i], 0, c.entries[c.roots[i]].dev, {}) : i \in 1..Len(c.roots)}
=============================================================================
