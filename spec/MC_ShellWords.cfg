CONSTANT MaxLen = 3
SPECIFICATION Spec
INVARIANT QuoteIsLossless
CHECK_DEADLOCK FALSE
