CONSTANT MaxLen = 3
CONSTANT Alphabet <- Syms
SPECIFICATION Spec
INVARIANT QuoteIsLossless
CHECK_DEADLOCK FALSE
