CONSTANTS
  N = 4
  MaxSpurious = 1000
  Mode = "obs"
SPECIFICATION TraceSpec
CONSTRAINT Track
POSTCONDITION Accepted
CHECK_DEADLOCK FALSE
