SPECIFICATION MCSpec
CONSTANTS
  NP = 3
  Lens = {2, 4, 5, 7}
  PLen = 4
  PMin = 2
  SLen = 2
  TLen = 6
  Kinds = {"over", "under"}
  Rfs = {0, 1, 2, 3}
  Isos = {TRUE}
  Skips = {FALSE, TRUE}
  Bads = {{}}
  Longs = {FALSE}
  RootSet = {0, 1, 2}
  Transforms = {"none"}
INVARIANTS MCTypeOK MCSound MCSoundSkip MCComplete MCCompleteSkip MCNeverSplit MCBadAlone MCOthersUnaffected MCFilterHonoured
CHECK_DEADLOCK FALSE
