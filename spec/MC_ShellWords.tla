---------------------------- MODULE MC_ShellWords ----------------------------
EXTENDS ShellWords
CONSTANTS MaxLen,
          Alphabet     \* the symbols the enumerated words are made of: all of Syms for short words, the brace material for longer ones
VARIABLES w
Init == w = <<>>
Next == Len(w) < MaxLen /\ \E s \in Alphabet : w' = Append(w, s)
Spec == Init /\ [][Next]_w
BraceSyms == {"lbrace", "rbrace", "comma", "dot", "a", "one"}
ASSUME Alphabet \subseteq Syms
\* a deviation to be refuted: braces do not force quoting (what `quote` would do without '{' '}' in SPECIAL_CHARS)
NoBraceSpecial == {"sp", "tab", "dq", "bs", "dollar", "hash", "star", "eq", "sq", "semi", "smalltilde", "tilde",
                   "pipe", "amp", "lt", "gt", "lp", "rp", "bq", "qm", "lb", "rb", "plus", "pct"}
QuoteIsLossless == w # <<>> => Lossless(w)
=============================================================================
