---------------------------- MODULE MC_ShellWords ----------------------------
EXTENDS ShellWords
CONSTANT MaxLen
VARIABLES w
Init == w = <<>>
Next == Len(w) < MaxLen /\ \E s \in Syms : w' = Append(w, s)
Spec == Init /\ [][Next]_w
QuoteIsLossless == w # <<>> => Lossless(w)
=============================================================================
