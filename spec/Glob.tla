-------------------------------- MODULE Glob --------------------------------
(* Reference semantics of fclones' extended globs (README "Filtering" table, read literally):        *)
(*   ?  one character except /        *  any run of characters except /        ** any run of characters *)
(*   [..] one of the listed characters, [!..] one character not listed (the separator is a character    *)
(*   like any other here), {a,b} alternatives, @(a|b) exactly one, ?(a|b) at most one, +(a|b) at least   *)
(*   one, *(a|b) any number of the alternatives, \c and every other character literally.                *)
(* A glob is a sequence of tokens; a string a sequence of one-character strings. Matching is of the     *)
(* whole string; with IgnoreCase letters are compared after folding.                                    *)
EXTENDS Integers, Sequences, FiniteSets, TLC

Fold(c) == IF c = "A" THEN "a" ELSE IF c = "Ż" THEN "ż" ELSE c
Eq(a, b, ci) == IF ci THEN Fold(a) = Fold(b) ELSE a = b

\* tokens: [t |-> "lit", c], [t |-> "any1"], [t |-> "star"], [t |-> "dstar"], [t |-> "class", s (set), neg (BOOLEAN)],
\*         [t |-> "alt", alts (sequence of token sequences)], [t |-> "ext", k ("@" | "?" | "+" | "*"), alts]
RECURSIVE Matches(_, _, _)
RECURSIVE MatchAlt(_, _, _, _, _)
RECURSIVE MatchRep(_, _, _, _, _, _)

\* one of alts[i..], followed by rest, matches s
MatchAlt(alts, i, rest, s, ci) == IF i > Len(alts) THEN FALSE
                                  ELSE Matches(alts[i] \o rest, s, ci) \/ MatchAlt(alts, i + 1, rest, s, ci)
\* between lo and hi repetitions of an alternative (each consuming at least one character), followed by rest
MatchRep(alts, lo, hi, rest, s, ci) ==
    \/ lo <= 0 /\ Matches(rest, s, ci)
    \/ /\ hi > 0
       /\ \E k \in 1..Len(s) : \E i \in 1..Len(alts) :
             /\ Matches(alts[i], SubSeq(s, 1, k), ci)
             /\ MatchRep(alts, lo - 1, hi - 1, rest, SubSeq(s, k + 1, Len(s)), ci)

Matches(g, s, ci) ==
    IF g = <<>> THEN s = <<>>
    ELSE LET tk == Head(g)  rest == Tail(g) IN
      CASE tk.t = "lit"   -> s # <<>> /\ Eq(Head(s), tk.c, ci) /\ Matches(rest, Tail(s), ci)
        [] tk.t = "any1"  -> s # <<>> /\ Head(s) # "/" /\ Matches(rest, Tail(s), ci)
        [] tk.t = "star"  -> \E k \in 0..Len(s) : (\A j \in 1..k : s[j] # "/") /\ Matches(rest, SubSeq(s, k + 1, Len(s)), ci)
        [] tk.t = "dstar" -> \E k \in 0..Len(s) : Matches(rest, SubSeq(s, k + 1, Len(s)), ci)
        [] tk.t = "class" -> s # <<>> /\ ((\E c \in tk.s : Eq(Head(s), c, ci)) # tk.neg) /\ Matches(rest, Tail(s), ci)
        [] tk.t = "alt"   -> MatchAlt(tk.alts, 1, rest, s, ci)
        [] tk.t = "ext"   -> CASE tk.k = "@" -> MatchAlt(tk.alts, 1, rest, s, ci)
                               [] tk.k = "?" -> Matches(rest, s, ci) \/ MatchAlt(tk.alts, 1, rest, s, ci)
                               [] tk.k = "+" -> MatchRep(tk.alts, 1, Len(s), rest, s, ci)
                               [] tk.k = "*" -> MatchRep(tk.alts, 0, Len(s), rest, s, ci)

\* all strings over an alphabet up to a length
RECURSIVE StringsUpTo(_, _)
StringsUpTo(A, n) == IF n = 0 THEN {<<>>} ELSE LET S == StringsUpTo(A, n - 1) IN S \cup {Append(x, c) : x \in S, c \in A}

Matching(g, U, ci) == {s \in U : Matches(g, s, ci)}
\* directories (written without trailing separator) that are ancestors of a matching string of the universe:
\* the walk must enter them (conservative pruning)
Ancestors(g, U, ci) == UNION {{SubSeq(s, 1, i - 1) : i \in {j \in 2..Len(s) : s[j] = "/"}} : s \in Matching(g, U, ci)}
=============================================================================
