--------------------------- MODULE Eval_GroupObs ---------------------------
EXTENDS GroupObs, Json, IOUtils, TLC
Runs == ndJsonDeserialize(IOEnv.CASES)
ASSUME ndJsonSerialize(IOEnv.OUT, [i \in 1..Len(Runs) |-> Verdict(Runs[i])])
VARIABLE x
Init == x = 0
Next == UNCHANGED x
=============================================================================
