----------------------------- MODULE MC_Grouping -----------------------------
(* Exhaustive inputs for Grouping.tla: NP paths over explicit byte strings (all zero but at most one      *)
(* flipped byte per identity, at any offset), every hard-link structure, a common length L (one identity   *)
(* may be one byte longer), every filter configuration, unreadable paths; and every order  *)
(* of the hashing tasks.  The window classes are computed from the bytes, so the theorems say that the     *)
(* windows and stage-skipping rules of the code separate exactly the files that differ.                    *)
EXTENDS Grouping

CONSTANTS NP, Lens, PLen, PMin, SLen, TLen, Kinds, Rfs, Isos, Skips, Bads, Longs, RootSet, Transforms

Pow2(n) == 2 ^ n
\* bytes of an identity: zero everywhere except a 1 at offset flip (0 = no flip)
Byte(flip, i) == IF i = flip THEN 1 ELSE 0
\* atom of the byte string at offsets from..to: its length and its bytes read as a binary number
Enc(flip, from, to) == LET S == {i \in from..to : Byte(flip, i) = 1} IN
                       1024 * (to - from + 1) + (IF S = {} THEN 0 ELSE Pow2((CHOOSE i \in S : TRUE) - from))
PK(len, flip) == IF len <= PLen THEN Enc(flip, 1, len) ELSE Enc(flip, 1, Min2(PMin, len))
SK(len, flip) == Enc(flip, len - Min2(SLen, len) + 1, len)
CK(len, flip) == Enc(flip, 1, len)
\* transform programs over the byte strings: "none" (no --transform), "keep" (cat), "head" (first 2 bytes), "tail" (all but the first 2)
TFrom(tr, len) == IF tr = "tail" THEN Min2(3, len + 1) ELSE 1
TTo(tr, len) == IF tr = "head" THEN Min2(2, len) ELSE len
TLenOf(tr, len) == Max2(0, TTo(tr, len) - TFrom(tr, len) + 1)
TK(tr, len, flip) == IF TLenOf(tr, len) = 0 THEN 0 ELSE Enc(flip, TFrom(tr, len), TTo(tr, len))

\* restricted-growth identity maps: path f is a link of an identity introduced no later than f
InoMaps == {m \in [1..NP -> 1..NP] : \A f \in 1..NP : m[f] <= 1 + (IF f = 1 THEN 0 ELSE Max({m[g] : g \in 1..(f - 1)}))}
Empty == [files |-> <<>>, cfg |-> [kind |-> "over", rf |-> 1, isolate |-> FALSE, matchLinks |-> FALSE, skipContent |-> FALSE, transform |-> FALSE, P |-> PLen, T |-> TLen],
          bad |-> {}, L |-> 0, inos |-> <<>>, tr |-> "none"]

MCInit == /\ inp = Empty /\ stage = "pick1" /\ phase = "begin" /\ groups = {} /\ todo = {} /\ got = {} /\ pass = {} /\ failed = {}
Pick1 == /\ stage = "pick1"
         /\ \E k \in Kinds, rf \in Rfs, iso \in Isos, ml \in BOOLEAN, sc \in Skips, L \in Lens, m \in InoMaps, tr \in Transforms :
               /\ (tr # "none" => ~sc)
               /\ inp' = [Empty EXCEPT !.cfg = [kind |-> k, rf |-> rf, isolate |-> iso, matchLinks |-> ml, skipContent |-> sc, transform |-> (tr # "none"),
                                                P |-> PLen, T |-> TLen],
                                       !.L = L, !.inos = m, !.tr = tr]
         /\ stage' = "pick2" /\ UNCHANGED <<phase, groups, todo, got, pass, failed>>
Pick2 == /\ stage = "pick2"
         /\ \E flips \in [1..NP -> 0..(inp.L + 1)], long \in Longs, roots \in [1..NP -> IF inp.cfg.isolate THEN RootSet ELSE {0}], bad \in Bads :
               LET lenOf(i) == IF long /\ i = Max({inp.inos[f] : f \in 1..NP}) THEN inp.L + 1 ELSE inp.L IN
               /\ \A i \in 1..NP : flips[i] <= lenOf(i)
               /\ \A i \in 1..NP : (i \notin {inp.inos[f] : f \in 1..NP}) => flips[i] = 0         \* unused identities: one representative
               /\ inp' = [inp EXCEPT !.files = [f \in 1..NP |-> LET i == inp.inos[f] IN
                                                  [ino |-> i, root |-> roots[f], len |-> lenOf(i), pk |-> PK(lenOf(i), flips[i]),
                                                   sk |-> SK(lenOf(i), flips[i]), ck |-> CK(lenOf(i), flips[i]),
                                                   tlen |-> TLenOf(inp.tr, lenOf(i)), tk |-> TK(inp.tr, lenOf(i), flips[i])]],
                                     !.bad = bad]
         /\ stage' = (IF inp.cfg.transform THEN "transform" ELSE "size")
         /\ groups' = (IF inp.cfg.transform THEN {[len |-> 0, hash |-> {}, files |-> 1..NP]} ELSE {})
         /\ UNCHANGED <<phase, todo, got, pass, failed>>
MCNext == Pick1 \/ Pick2 \/ Next0
MCSpec == MCInit /\ [][MCNext]_vars

Picked == stage \notin {"pick1", "pick2"}
MCTypeOK == Picked => TypeOK
MCSound == Picked => Sound
MCSoundSkip == Picked => SoundSkip
MCSoundSkipIdeal == Picked => SoundSkipIdeal
MCComplete == Picked => Complete
MCCompleteSkip == Picked => CompleteSkip
MCNeverSplit == Picked => NeverSplit
MCBadAlone == Picked => BadAlone
MCOthersUnaffected == Picked => OthersUnaffected
MCFilterHonoured == Picked => FilterHonoured
=============================================================================
