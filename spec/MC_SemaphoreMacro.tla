-------------------------- MODULE MC_SemaphoreMacro --------------------------
(* Macro-step view of Semaphore.tla, used to GENERATE schedules that are imposed on the real     *)
(* semaphore through the hook gates.  Because the mutex serialises the fine-grained steps, a      *)
(* schedule of the real code can only be controlled at the points where no lock is held:          *)
(*   Try(t)    = AcqEnter ; lock ; (AcqSleep | AcqDone)                                           *)
(*   Inc(t)    = RelStart ; lock ; count+1 ; unlock            (thread then pauses at RelMid)     *)
(*   Notify(t) = RelMid ; notify_one ; RelEnd ; and the woken waiter w (if any) immediately does  *)
(*               AcqWake ; (AcqSleep | AcqDone)                                                   *)
(*   Hand(t)   = guard handed over to the pool                                                    *)
(*   SpurAll   = every waiter is woken spuriously and re-checks                                   *)
(* Each macro step is a composition of steps of Semaphore.tla; every replay of a schedule is       *)
(* recorded at the fine grain and validated against Semaphore.tla itself (Trace_Semaphore).        *)
EXTENDS Integers, Sequences, FiniteSets, TLC, Json

CONSTANTS N, MaxSpurious, MaxPairs, PermitSet, Shape

Threads == 1..N
VARIABLES prog, permits, count, waitSet, pc, ip, held, pool, spur, hist
vars == <<prog, permits, count, waitSet, pc, ip, held, pool, spur, hist>>

Rep(s, n) == IF n = 0 THEN <<>> ELSE IF n = 1 THEN s ELSE IF n = 2 THEN s \o s ELSE s \o s \o s
PairProgs == { [t \in Threads |-> Rep(<<"A", "R">>, k[t])] : k \in [Threads -> 0..MaxPairs] }
HandProgs == { [t \in Threads |-> IF t = 1 THEN Rep(<<"A", "H">>, n) ELSE IF t = 2 THEN Rep(<<"X">>, n)
                                  ELSE Rep(<<"A", "R">>, m)] : n \in 1..MaxPairs, m \in 0..1 }
CvarProgs == { [t \in Threads |-> IF t = 1 THEN Rep(<<"P">>, n) ELSE IF t <= 1 + n THEN <<"A">> ELSE <<>>] : n \in 1..MaxPairs }
NonTrivial(p) == Cardinality({t \in Threads : p[t] # <<>>}) >= 2
Progs == IF Shape = "pairs" THEN PairProgs ELSE IF Shape = "hand" THEN HandProgs ELSE IF Shape = "cvar" THEN CvarProgs
         ELSE PairProgs \cup HandProgs \cup CvarProgs

Op(t) == IF ip[t] <= Len(prog[t]) THEN prog[t][ip[t]] ELSE "-"
AllDone == \A t \in Threads : pc[t] = "idle" /\ ip[t] > Len(prog[t])

Init == \E p \in Progs : \E k \in PermitSet :
          /\ NonTrivial(p) /\ (p \in PairProgs \cup HandProgs => k >= 1)
          /\ prog = p /\ permits = k /\ count = k /\ waitSet = {}
          /\ pc = [t \in Threads |-> "idle"] /\ ip = [t \in Threads |-> 1] /\ held = [t \in Threads |-> 0]
          /\ pool = 0 /\ spur = 0 /\ hist = <<>>

Try(t) == /\ pc[t] = "idle" /\ Op(t) = "A"
          /\ IF count <= 0
             THEN /\ waitSet' = waitSet \cup {t} /\ pc' = [pc EXCEPT ![t] = "a_wait"]
                  /\ UNCHANGED <<count, held, ip>>
             ELSE /\ count' = count - 1 /\ held' = [held EXCEPT ![t] = @ + 1] /\ ip' = [ip EXCEPT ![t] = @ + 1]
                  /\ UNCHANGED <<waitSet, pc>>
          /\ hist' = Append(hist, <<"Try", t>>)
          /\ UNCHANGED <<prog, permits, pool, spur>>

Inc(t) == /\ pc[t] = "idle"
          /\ \/ Op(t) = "R" /\ held[t] > 0 /\ held' = [held EXCEPT ![t] = @ - 1] /\ UNCHANGED pool
             \/ Op(t) = "X" /\ pool > 0 /\ pool' = pool - 1 /\ UNCHANGED held
             \/ Op(t) = "P" /\ UNCHANGED <<held, pool>>
          /\ count' = count + 1
          /\ pc' = [pc EXCEPT ![t] = "r_mid"]
          /\ hist' = Append(hist, <<"Inc", t>>)
          /\ UNCHANGED <<prog, permits, waitSet, ip, spur>>

Notify(t) == /\ pc[t] = "r_mid"
             /\ \/ /\ waitSet = {}
                   /\ pc' = [pc EXCEPT ![t] = "idle"] /\ ip' = [ip EXCEPT ![t] = @ + 1]
                   /\ UNCHANGED <<waitSet, count, held>>
                \/ \E w \in waitSet :
                     IF count <= 0
                     THEN /\ pc' = [pc EXCEPT ![t] = "idle"] /\ ip' = [ip EXCEPT ![t] = @ + 1]
                          /\ UNCHANGED <<waitSet, count, held>>            \* woke up, found nothing, sleeps again
                     ELSE /\ waitSet' = waitSet \ {w} /\ count' = count - 1
                          /\ held' = [held EXCEPT ![w] = @ + 1]
                          /\ pc' = [pc EXCEPT ![t] = "idle", ![w] = "idle"]
                          /\ ip' = [ip EXCEPT ![t] = @ + 1, ![w] = @ + 1]
             /\ hist' = Append(hist, <<"Notify", t>>)
             /\ UNCHANGED <<prog, permits, pool, spur>>

Hand(t) == /\ pc[t] = "idle" /\ Op(t) = "H" /\ held[t] > 0
           /\ held' = [held EXCEPT ![t] = @ - 1] /\ pool' = pool + 1 /\ ip' = [ip EXCEPT ![t] = @ + 1]
           /\ hist' = Append(hist, <<"Hand", t>>)
           /\ UNCHANGED <<prog, permits, count, waitSet, pc, spur>>

\* all waiters wake spuriously; as many as there are permits get one (any of them), the others sleep again
SpurAll == /\ spur < MaxSpurious /\ waitSet # {}
           /\ LET k == IF count <= 0 THEN 0 ELSE IF count >= Cardinality(waitSet) THEN Cardinality(waitSet) ELSE count
              IN \E W \in SUBSET waitSet :
                    /\ Cardinality(W) = k
                    /\ waitSet' = waitSet \ W /\ count' = count - k
                    /\ held' = [t \in Threads |-> IF t \in W THEN held[t] + 1 ELSE held[t]]
                    /\ pc' = [t \in Threads |-> IF t \in W THEN "idle" ELSE pc[t]]
                    /\ ip' = [t \in Threads |-> IF t \in W THEN ip[t] + 1 ELSE ip[t]]
           /\ spur' = spur + 1
           /\ hist' = Append(hist, <<"Spur", 0>>)
           /\ UNCHANGED <<prog, permits, pool>>

Next == (\E t \in Threads : Try(t) \/ Inc(t) \/ Notify(t) \/ Hand(t)) \/ SpurAll
Spec == Init /\ [][Next]_vars

RECURSIVE SumHeld(_)
SumHeld(S) == IF S = {} THEN 0 ELSE LET t == CHOOSE x \in S : TRUE IN held[t] + SumHeld(S \ {t})
InFlightM == Cardinality({t \in Threads : pc[t] = "r_mid"})
Posts == 0  \* posts are accounted in SafetyM through the programs: see below
\* at macro level an Inc has already incremented, so in-flight releases are not counted
SafetyM == count >= 0 \/ permits < 0
\* every complete macro behaviour ends with all threads done (closed systems): no lost wake-up
NoStuck == (~ ENABLED Next) => AllDone

\* emission of complete schedules (one line per behaviour)
Emit == AllDone => PrintT(<<"SCHED", ToJson([permits |-> permits, prog |-> prog, sched |-> hist])>>)
=============================================================================
