------------------------------ MODULE DedupeOps ------------------------------
(* The file-system commands of `fclones remove | link | link --soft | dedupe | move`             *)
(* (src/dedupe.rs FsCommand::execute, safe_remove, move_rename/move_copy; src/reflink.rs          *)
(* linux_reflink), each as its sequence of system calls, with failure and roll-back branches,     *)
(* over a flat abstract file system.  One command per dropped file; commands of different files   *)
(* interleave freely (rayon workers).  The same step relation is used                              *)
(*   - by MC_DedupeOps: every call may fail (bounded number of injected faults), the process may   *)
(*     crash between any two calls; invariants = C05 (atomicity), C18 (move), C20 (locks);         *)
(*   - by Trace_DedupeOps: the calls observed from the real binary (LD_PRELOAD shim) drive it.     *)
EXTENDS Integers, Sequences, FiniteSets, TLC

CONSTANTS Op,          \* "remove" | "hard" | "soft" | "reflink" | "move"
          NoLock       \* BOOLEAN: --no-lock

VARIABLES fs,          \* [path -> entry]; entry = [k: "file", ino, c] | [k: "dir"] | [k: "link", to]
          fs0,         \* the file system before the command started
          dropped,     \* set of paths to process (the files of the script)
          keep,        \* [dropped -> path]: the retained file a link/clone refers to
          mvt,         \* [dropped -> path]: move target of the file (op = "move")
          locked,      \* paths on which a foreign process holds a conflicting lock
          pc,          \* [dropped -> control point of the file's command]
          tmp,         \* [dropped -> temporary sibling path in use, or ""]
          res,         \* [dropped -> "none" | "ok" | "err"]  result of the command
          rbfail,      \* [dropped -> BOOLEAN] the roll-back itself failed
          crashed,     \* the process was killed
          nextino      \* fresh inode numbers

vars == <<fs, fs0, dropped, keep, mvt, locked, pc, tmp, res, rbfail, crashed, nextino>>

Has(p) == p \in DOMAIN fs
IsFile(S, p) == p \in DOMAIN S /\ S[p].k = "file"
\* bytes read through a path (one level of symbolic link, as created by `link --soft`)
Read(S, p) == IF p \notin DOMAIN S THEN "ENOENT"
              ELSE IF S[p].k = "file" THEN S[p].c
              ELSE IF S[p].k = "link" THEN (IF S[p].to \in DOMAIN S /\ S[S[p].to].k = "file" THEN S[S[p].to].c ELSE "EDANGLING")
              ELSE "EISDIR"

Put(S, p, e) == [q \in DOMAIN S \cup {p} |-> IF q = p THEN e ELSE S[q]]
Del(S, p) == [q \in DOMAIN S \ {p} |-> S[q]]
\* writing through one name changes every hard link of the inode
SetContent(S, ino, c) == [q \in DOMAIN S |-> IF S[q].k = "file" /\ S[q].ino = ino THEN [S[q] EXCEPT !.c = c] ELSE S[q]]

(* ---- call semantics (successful calls) ---- *)
DoRename(a, b) == fs' = Put(Del(fs, a), b, fs[a])                       \* overwrites b silently, like rename(2)
DoLink(a, b)   == fs' = Put(fs, b, fs[a])                               \* link(2) does not follow a symlink a
DoSymlink(t, b) == fs' = Put(fs, b, [k |-> "link", to |-> t])
DoUnlink(a)    == fs' = Del(fs, a)
DoCreate(a)    == /\ fs' = (IF Has(a) THEN fs ELSE Put(fs, a, [k |-> "file", ino |-> nextino, c |-> "EMPTY"]))
                  /\ nextino' = (IF Has(a) THEN nextino ELSE nextino + 1)
DoTruncCreate(a) == /\ fs' = (IF IsFile(fs, a) THEN SetContent(fs, fs[a].ino, "EMPTY") ELSE Put(fs, a, [k |-> "file", ino |-> nextino, c |-> "EMPTY"]))
                    /\ nextino' = (IF IsFile(fs, a) THEN nextino ELSE nextino + 1)
DoWriteAll(dst, src) == fs' = SetContent(fs, fs[dst].ino, Read(fs, src))  \* clone / complete copy of src's bytes onto dst
DoMkdir(d)     == fs' = (IF Has(d) THEN fs ELSE Put(fs, d, [k |-> "dir"]))
\* ioctl(dst, FICLONE, src) can succeed only if the kernel lets it: an empty source is "cloned" by doing nothing, and a file cannot be
\* cloned onto itself (EINVAL: overlapping ranges of one inode) - which is what a group of hard links reported with --match-links asks for
CanClone(dst, src) == Read(fs, src) = "EMPTY" \/ ~(IsFile(fs, src) /\ IsFile(fs, dst) /\ fs[src].ino = fs[dst].ino)

Goto(f, l) == pc' = [pc EXCEPT ![f] = l]
Finish(f, r) == /\ pc' = [pc EXCEPT ![f] = "done"] /\ res' = [res EXCEPT ![f] = r]
Same(v) == UNCHANGED v

(* ---------------------------------------------------------------------------------------- *)
(* Step(f, call, a, b, ok): the command of file f performs `call` on (a, b) with outcome ok.  *)
(* The enabling condition says which call the code issues next; the effect is the call's     *)
(* effect on the abstract file system and the code's reaction to the outcome.                 *)
(* ---------------------------------------------------------------------------------------- *)
BodyStart == CASE Op = "remove" -> "rm" [] Op = "hard" -> "mv_tmp" [] Op = "soft" -> "mv_tmp"
               [] Op = "reflink" -> "bk_create" [] Op = "move" -> "mv_check"

\* ---- locking prefix (skipped with --no-lock): open for write, fcntl(F_SETLK, F_WRLCK) ----
LockOpen(f, ok) == /\ pc[f] = "start" /\ ~NoLock
                   /\ IF ok THEN Goto(f, "lock") /\ Same(res) ELSE Finish(f, "err")
                   /\ Same(<<fs, tmp, rbfail, nextino>>)
Lock(f, ok) == /\ pc[f] = "lock"
               /\ IF ok THEN Goto(f, BodyStart) /\ Same(res) ELSE Finish(f, "err")
               /\ Same(<<fs, tmp, rbfail, nextino>>)
\* open-for-write or fcntl fails with "unsupported" (ENOSYS / EOPNOTSUPP): the file system has no locks, so nobody can hold one -
\* the command goes on without a lock (FsCommand::maybe_lock)
LockUnsupported(f) == /\ pc[f] \in {"start", "lock"} /\ ~NoLock /\ locked = {}
                      /\ Goto(f, BodyStart) /\ Same(<<fs, tmp, res, rbfail, nextino>>)
SkipLock(f) == /\ pc[f] = "start" /\ NoLock /\ Goto(f, BodyStart) /\ Same(<<fs, tmp, res, rbfail, nextino>>)

\* ---- remove ----
Rm(f, ok) == /\ pc[f] = "rm"
             /\ IF ok THEN DoUnlink(f) /\ Finish(f, "ok") ELSE Same(fs) /\ Finish(f, "err")
             /\ Same(<<tmp, rbfail, nextino>>)

\* ---- hard / soft link: safe_remove ----
MvTmp(f, t, ok) == /\ pc[f] = "mv_tmp"
                   /\ IF ok THEN DoRename(f, t) /\ tmp' = [tmp EXCEPT ![f] = t] /\ Goto(f, "mk_link") /\ Same(res)
                      ELSE Same(<<fs, tmp>>) /\ Finish(f, "err")
                   /\ Same(<<rbfail, nextino>>)
MkLink(f, ok) == /\ pc[f] = "mk_link"
                 /\ IF ok THEN /\ (IF Op = "hard" THEN DoLink(keep[f], f) ELSE DoSymlink(keep[f], f))
                               /\ Goto(f, "rm_tmp") /\ Same(res)
                    ELSE Same(fs) /\ Goto(f, "rollback") /\ Same(res)
                 /\ Same(<<tmp, rbfail, nextino>>)
Rollback(f, ok) == /\ pc[f] = "rollback"
                   /\ IF ok THEN DoRename(tmp[f], f) /\ Same(rbfail) ELSE Same(fs) /\ rbfail' = [rbfail EXCEPT ![f] = TRUE]
                   /\ Finish(f, "err")
                   /\ Same(<<tmp, nextino>>)
RmTmp(f, ok) == /\ pc[f] = "rm_tmp"
                /\ IF ok THEN DoUnlink(tmp[f]) ELSE Same(fs)
                /\ Finish(f, "ok")                                      \* a left-over temporary is only a warning
                /\ Same(<<tmp, rbfail, nextino>>)

\* ---- reflink (linux_reflink): clone f -> tmp (backup), clone keep -> f, remove tmp, restore timestamps ----
BkCreate(f, t, ok) == /\ pc[f] = "bk_create"
                      /\ IF ok THEN DoCreate(t) /\ tmp' = [tmp EXCEPT ![f] = t] /\ Goto(f, "bk_clone")
                         ELSE Same(<<fs, nextino>>) /\ tmp' = [tmp EXCEPT ![f] = t] /\ Goto(f, "bk_cleanup")
                      /\ Same(<<res, rbfail>>)
BkClone(f, ok) == /\ pc[f] = "bk_clone" /\ (ok => CanClone(tmp[f], f))
                  /\ IF ok THEN DoWriteAll(tmp[f], f) /\ Goto(f, "cl_open") ELSE Same(fs) /\ Goto(f, "bk_cleanup")
                  /\ Same(<<tmp, res, rbfail, nextino>>)
BkCleanup(f, ok) == /\ pc[f] = "bk_cleanup"                             \* remove_temporary, then the error is returned
                    /\ IF ok /\ Has(tmp[f]) THEN DoUnlink(tmp[f]) ELSE Same(fs)
                    /\ Finish(f, "err") /\ Same(<<tmp, rbfail, nextino>>)
ClOpen(f, ok) == /\ pc[f] = "cl_open"                                   \* open f for write (create, no truncate)
                 /\ IF ok THEN Goto(f, "cl_clone") ELSE Goto(f, "rollback")
                 /\ Same(<<fs, tmp, res, rbfail, nextino>>)
\* NOT what the code does - the same open with O_TRUNC ("the clone refills it anyway"): kept as a named deviation so that the model
\* checker can show why the code must not do it (MC_DedupeOps with TruncOnOpen = TRUE: RetainedUntouched fails for a hard-linked group)
ClOpenTrunc(f, ok) == /\ pc[f] = "cl_open"
                      /\ IF ok THEN DoTruncCreate(f) /\ Goto(f, "cl_clone") ELSE Same(<<fs, nextino>>) /\ Goto(f, "rollback")
                      /\ Same(<<tmp, res, rbfail>>)
ClClone(f, ok) == /\ pc[f] = "cl_clone" /\ (ok => CanClone(f, keep[f]))
                  /\ IF ok THEN DoWriteAll(f, keep[f]) /\ Goto(f, "cl_rm_tmp") ELSE Same(fs) /\ Goto(f, "rollback")
                  /\ Same(<<tmp, res, rbfail, nextino>>)
ClRmTmp(f, ok) == /\ pc[f] = "cl_rm_tmp"
                  /\ IF ok THEN DoUnlink(tmp[f]) ELSE Same(fs)
                  /\ Goto(f, "times") /\ Same(<<tmp, res, rbfail, nextino>>)
Times(f, ok) == /\ pc[f] = "times"                                      \* utimes(f); failure is reported, the clone stays
                /\ IF ok THEN Finish(f, "ok") ELSE Finish(f, "err")
                /\ Same(<<fs, tmp, rbfail, nextino>>)

\* ---- move: exists-check, mkdir -p, rename; on any failure: exists-check, mkdir -p, copy, unlink source ----
MvCheck(f) == /\ pc[f] \in {"mv_check", "cp_check"}                     \* check_can_rename: a stat, never injected here
              /\ IF Has(mvt[f]) THEN (IF pc[f] = "mv_check" THEN Goto(f, "cp_check") /\ Same(res) ELSE Finish(f, "err"))
                 ELSE Goto(f, IF pc[f] = "mv_check" THEN "mv_rename" ELSE "cp_create") /\ Same(res)
              /\ Same(<<fs, tmp, rbfail, nextino>>)
Mkdir(f, d, ok) == /\ pc[f] \in {"mv_rename", "cp_create"}              \* create_dir_all(parent of target): any number of mkdirs
                   /\ IF ok THEN DoMkdir(d) /\ Same(<<pc, res>>)
                      ELSE Same(fs) /\ (IF pc[f] = "mv_rename" THEN Goto(f, "cp_check") /\ Same(res) ELSE Finish(f, "err"))
                   /\ Same(<<tmp, rbfail, nextino>>)
MvRename(f, ok) == /\ pc[f] = "mv_rename"
                   /\ IF ok THEN DoRename(f, mvt[f]) /\ Finish(f, "ok") ELSE Same(fs) /\ Goto(f, "cp_check") /\ Same(res)
                   /\ Same(<<tmp, rbfail, nextino>>)
CpCreate(f, ok) == /\ pc[f] = "cp_create"                               \* fs::copy opens the target with O_CREAT|O_TRUNC
                   /\ IF ok THEN DoTruncCreate(mvt[f]) /\ Goto(f, "cp_copy") /\ Same(res) ELSE Same(<<fs, nextino>>) /\ Finish(f, "err")
                   /\ Same(<<tmp, rbfail>>)
CpCopy(f, ok) == /\ pc[f] = "cp_copy"                                   \* the copy loop; ok = every byte was written
                 /\ IF ok THEN /\ DoWriteAll(mvt[f], f)
                               /\ \/ Goto(f, "cp_rm_src") /\ Same(res)
                                  \/ Finish(f, "err")                   \* fs::copy may still report a failure after the last byte
                    ELSE /\ fs' = SetContent(fs, fs[mvt[f]].ino, "PARTIAL")  \* a failure leaves a partial (or empty) target
                         /\ Finish(f, "err")
                 /\ Same(<<tmp, rbfail, nextino>>)
CpRmSrc(f, ok) == /\ pc[f] = "cp_rm_src"
                  /\ IF ok THEN DoUnlink(f) /\ Finish(f, "ok") ELSE Same(fs) /\ Finish(f, "err")
                  /\ Same(<<tmp, rbfail, nextino>>)

(* ---------------------------------- properties ---------------------------------- *)
Orig(p) == Read(fs0, p)
Processing == {f \in dropped : pc[f] # "start"}

\* C05: every file being processed has its original bytes at its original path (possibly through a link /
\* clone / copy of identical bytes), or - remove - is gone while the retained copy holds the bytes,
\* or - move - is readable under its target, or - only while a replacement is in flight, after a crash,
\* or after a failed roll-back - sits under its temporary sibling.
AtomicFile(f) ==
    \/ Read(fs, f) = Orig(f)
    \/ Op = "remove" /\ ~Has(f) /\ Read(fs, keep[f]) = Orig(f)
    \/ Op = "move" /\ ~Has(f) /\ Read(fs, mvt[f]) = Orig(f)
    \/ /\ tmp[f] # "" /\ Read(fs, tmp[f]) = Orig(f)
       /\ (pc[f] = "done" => rbfail[f])               \* once the command has ended only a failed roll-back excuses it
Atomic == \A f \in dropped : AtomicFile(f)

\* the retained files (and everything else that is not processed) are never touched
Untouched(p) == p \in DOMAIN fs /\ fs[p] = fs0[p]
RetainedUntouched == \A f \in dropped : Untouched(keep[f])
OthersUntouched == \A p \in DOMAIN fs0 : (p \notin dropped /\ (fs0[p].k # "file" \/ \A f \in dropped : fs0[f].k # "file" \/ fs0[f].ino # fs0[p].ino)) => Untouched(p)

\* a failed command without a failed roll-back leaves the original path as it was and the file is not counted
FailedRestored == \A f \in dropped : (pc[f] = "done" /\ res[f] = "err" /\ ~rbfail[f])
                                        => Read(fs, f) = Orig(f) /\ IsFile(fs, f)
\* a succeeded command has done its job
SucceededReplaced == \A f \in dropped : (pc[f] = "done" /\ res[f] = "ok") =>
                        CASE Op = "remove" -> ~Has(f)
                          [] Op = "hard" -> IsFile(fs, f) /\ fs[f].ino = fs[keep[f]].ino
                          [] Op = "soft" -> Has(f) /\ fs[f].k = "link" /\ fs[f].to = keep[f]
                          [] Op = "reflink" -> Read(fs, f) = Orig(f)
                          [] Op = "move" -> ~Has(f) /\ Read(fs, mvt[f]) = Orig(f)

\* C18: nothing that existed under the target directory is overwritten or altered; the source disappears only
\* when its bytes are completely under the target
NoOverwrite == Op = "move" => \A p \in DOMAIN fs0 : (p \notin dropped /\ p \notin {keep[f] : f \in dropped}) => Untouched(p)
SourceLast == Op = "move" => \A f \in dropped : ~Has(f) => Read(fs, mvt[f]) = Orig(f)

\* C20: unless --no-lock, a file locked by another process is left exactly as it was, and its command fails
LockedLeftAlone == ~NoLock => \A f \in dropped \cap locked : Untouched(f) /\ (pc[f] = "done" => res[f] = "err")
=============================================================================
