INIT Init
NEXT Next
