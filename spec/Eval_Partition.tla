--------------------------- MODULE Eval_Partition ---------------------------
(* Evaluates Partition.tla on the cases of an ndjson file (IOEnv.CASES) and writes the expected      *)
(* dropped sets to IOEnv.OUT; the derived theorems are asserted for every case.                      *)
EXTENDS Partition, Json, IOUtils, TLC

Cases == ndJsonDeserialize(IOEnv.CASES)
Results == [i \in 1..Len(Cases) |-> [id |-> Cases[i].id,
                                      dropped |-> SortSeq(SetToSeq(DroppedFiles(Cases[i])), LAMBDA a, b : a < b),
                                      nsub |-> Len(SubGroups(Cases[i])),
                                      theorems |-> Theorems(Cases[i])]]
ASSUME ndJsonSerialize(IOEnv.OUT, Results)
ASSUME \A i \in 1..Len(Cases) : Results[i].theorems
VARIABLE x
Init == x = 0
Next == UNCHANGED x
=============================================================================
