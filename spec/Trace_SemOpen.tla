---------------------------- MODULE Trace_SemOpen ----------------------------
(* The semaphore as an OPEN system: any number of threads, each either outside, inside `acquire` or inside    *)
(* `release`.  Used to validate the hook events that the repository's own unit tests (and ordinary `group`    *)
(* runs) produce: the file holds one segment per semaphore instance, `Reset` carrying its initial count.      *)
(* AcqSleep / AcqWake / AcqDone are logged under the mutex together with the counter, so every such line      *)
(* pins the counter; the increment of a release happens somewhere between its RelStart and RelMid lines and   *)
(* is the only unlogged step (Inc).  The actions are those of Semaphore.tla without the closed-system         *)
(* programs; the property is the same: the counter never goes below zero (never more holders than permits)    *)
(* nor above the initial count (no release without a guard in these clients).                                 *)
EXTENDS Integers, Sequences, FiniteSets, TLC, Json, IOUtils
Rec == ndJsonDeserialize(IOEnv.TRACE)
Tids == {Rec[i].tid : i \in {j \in 1..Len(Rec) : "tid" \in DOMAIN Rec[j]}}
VARIABLES l, cnt, permits, ph
vars == <<l, cnt, permits, ph>>
R == Rec[l]
IsEv(e) == l <= Len(Rec) /\ Rec[l].ev = e /\ l' = l + 1
Move(t, from, to) == ph[t] = from /\ ph' = [ph EXCEPT ![t] = to]

Init == TLCSet(1, 1) /\ TLCSet(2, 0) /\ l = 1 /\ cnt = 0 /\ permits = 0 /\ ph = [t \in Tids |-> "out"]
TReset == IsEv("Reset") /\ cnt' = R.permits /\ permits' = R.permits /\ ph' = [t \in Tids |-> "out"]
TAcqEnter == IsEv("AcqEnter") /\ Move(R.tid, "out", "acq") /\ UNCHANGED <<cnt, permits>>
\* the code sleeps only while the counter is not positive
TAcqSleep == IsEv("AcqSleep") /\ R.count = cnt /\ cnt <= 0 /\ Move(R.tid, "acq", "sleep") /\ UNCHANGED <<cnt, permits>>
TAcqWake == IsEv("AcqWake") /\ R.count = cnt /\ Move(R.tid, "sleep", "acq") /\ UNCHANGED <<cnt, permits>>
\* the decrement itself is taken as logged; whether it was allowed is the invariant NeverNegative
TAcqDone == IsEv("AcqDone") /\ R.count = cnt - 1 /\ cnt' = cnt - 1 /\ Move(R.tid, "acq", "out") /\ UNCHANGED permits
TRelStart == IsEv("RelStart") /\ Move(R.tid, "out", "rel0") /\ UNCHANGED <<cnt, permits>>
Inc == l <= Len(Rec) /\ \E t \in Tids : Move(t, "rel0", "rel1") /\ cnt' = cnt + 1 /\ UNCHANGED <<l, permits>>
TRelMid == IsEv("RelMid") /\ Move(R.tid, "rel1", "relm") /\ UNCHANGED <<cnt, permits>>
TRelEnd == IsEv("RelEnd") /\ Move(R.tid, "relm", "out") /\ UNCHANGED <<cnt, permits>>
Next == TReset \/ TAcqEnter \/ TAcqSleep \/ TAcqWake \/ TAcqDone \/ TRelStart \/ Inc \/ TRelMid \/ TRelEnd
TraceSpec == Init /\ [][Next]_vars

NeverNegative == cnt >= 0
NeverAbove == cnt <= permits
Fail(name) == IF TLCGet(2) = 0 THEN TLCSet(2, l) /\ PrintT(<<"INVFAIL", name, l - 1>>) ELSE TRUE
Track == /\ TLCSet(1, IF TLCGet(1) > l THEN TLCGet(1) ELSE l)
         /\ (NeverNegative \/ Fail("NeverNegative")) /\ (NeverAbove \/ Fail("NeverAbove"))
Accepted == /\ TLCGet(2) = 0
            /\ \/ TLCGet(1) = Len(Rec) + 1
               \/ PrintT(<<"REJECTED", TLCGet(1), ToJson(Rec[TLCGet(1)])>>) /\ FALSE
=============================================================================
