------------------------------- MODULE Rehash -------------------------------
(* The concurrent core of grouping (src/group.rs `rehash`): per device one thread that, for every    *)
(* run of same-id files, acquires a permit of the throttle semaphore (8 x pool threads) and spawns a   *)
(* task on the device's pool; a task takes a pool worker, acquires an open-files permit, hashes the    *)
(* first file of the run, sends every file of the run over the channel and releases both permits;      *)
(* the caller thread receives until every sender is gone and inserts into an ordered map.             *)
(* C13: no deadlock, every run terminates, in-flight tasks bounded, and the resulting map does not     *)
(* depend on the interleaving.                                                                         *)
EXTENDS Integers, Sequences, FiniteSets, TLC

CONSTANTS Devices,        \* set of devices
          NRuns,          \* [Devices -> number of runs]
          RunSize,        \* files per run
          Pool,           \* [Devices -> pool threads]
          Factor,         \* throttle permits = Factor * pool threads (the code: 8)
          OpenLimit,      \* open-files permits
          FailSet,        \* runs <<d, i>> whose hash fails (nothing is sent)
          PermitsPerTask  \* throttle permits a task holds: 1 in the code.  RunSize (one per PATH of the run) is the variant a seeded
                          \* change introduced: a run with more paths than Factor x pool threads can then never be spawned

Task == {<<d, i>> : d \in Devices, i \in 1..5} 
Tasks == {t \in Task : t[2] <= NRuns[t[1]]}

VARIABLES next,       \* [Devices -> index of the next run to spawn]
          throttle,   \* [Devices -> free throttle permits]
          queue,      \* [Devices -> sequence of spawned tasks not yet started]
          stage,      \* [Tasks -> "new" | "queued" | "wait_open" | "hash" | "send" | "done"]
          tosend,     \* [Tasks -> files still to send]
          open,       \* free open-files permits
          chan,       \* sequence of <<task, k>> in flight
          map,        \* set of received <<task, k>>
          devdone,    \* set of devices whose spawning thread has finished
          collected   \* collector finished
vars == <<next, throttle, queue, stage, tosend, open, chan, map, devdone, collected>>

Init == /\ next = [d \in Devices |-> 1] /\ throttle = [d \in Devices |-> Factor * Pool[d]]
        /\ queue = [d \in Devices |-> <<>>] /\ stage = [t \in Tasks |-> "new"] /\ tosend = [t \in Tasks |-> 0]
        /\ open = OpenLimit /\ chan = <<>> /\ map = {} /\ devdone = {} /\ collected = FALSE

Running(d) == {t \in Tasks : t[1] = d /\ stage[t] \in {"wait_open", "hash", "send"}}
InFlight(d) == {t \in Tasks : t[1] = d /\ stage[t] \in {"queued", "wait_open", "hash", "send"}}

Spawn(d) == /\ next[d] <= NRuns[d] /\ throttle[d] >= PermitsPerTask
            /\ throttle' = [throttle EXCEPT ![d] = @ - PermitsPerTask]
            /\ queue' = [queue EXCEPT ![d] = Append(@, <<d, next[d]>>)]
            /\ stage' = [stage EXCEPT ![<<d, next[d]>>] = "queued"]
            /\ next' = [next EXCEPT ![d] = @ + 1]
            /\ UNCHANGED <<tosend, open, chan, map, devdone, collected>>
DevDone(d) == /\ next[d] > NRuns[d] /\ d \notin devdone /\ devdone' = devdone \cup {d}
              /\ UNCHANGED <<next, throttle, queue, stage, tosend, open, chan, map, collected>>
Start(d) == /\ queue[d] # <<>> /\ Cardinality(Running(d)) < Pool[d]
            /\ stage' = [stage EXCEPT ![Head(queue[d])] = "wait_open"]
            /\ queue' = [queue EXCEPT ![d] = Tail(@)]
            /\ UNCHANGED <<next, throttle, tosend, open, chan, map, devdone, collected>>
Open(t) == /\ stage[t] = "wait_open" /\ open > 0 /\ open' = open - 1
           /\ stage' = [stage EXCEPT ![t] = "hash"]
           /\ UNCHANGED <<next, throttle, queue, tosend, chan, map, devdone, collected>>
Hash(t) == /\ stage[t] = "hash"
           /\ stage' = [stage EXCEPT ![t] = "send"]
           /\ tosend' = [tosend EXCEPT ![t] = IF t \in FailSet THEN 0 ELSE RunSize]
           /\ UNCHANGED <<next, throttle, queue, open, chan, map, devdone, collected>>
Send(t) == /\ stage[t] = "send" /\ tosend[t] > 0
           /\ chan' = Append(chan, <<t, tosend[t]>>)
           /\ tosend' = [tosend EXCEPT ![t] = @ - 1]
           /\ UNCHANGED <<next, throttle, queue, stage, open, map, devdone, collected>>
Finish(t) == /\ stage[t] = "send" /\ tosend[t] = 0
             /\ stage' = [stage EXCEPT ![t] = "done"]
             /\ open' = open + 1 /\ throttle' = [throttle EXCEPT ![t[1]] = @ + PermitsPerTask]
             /\ UNCHANGED <<next, queue, tosend, chan, map, devdone, collected>>
Recv == /\ chan # <<>> /\ ~collected
        /\ map' = map \cup {Head(chan)} /\ chan' = Tail(chan)
        /\ UNCHANGED <<next, throttle, queue, stage, tosend, open, devdone, collected>>
AllSendersGone == devdone = Devices /\ \A t \in Tasks : stage[t] = "done"
CollectorEnd == /\ ~collected /\ chan = <<>> /\ AllSendersGone /\ collected' = TRUE
                /\ UNCHANGED <<next, throttle, queue, stage, tosend, open, chan, map, devdone>>

Next == (\E d \in Devices : Spawn(d) \/ DevDone(d) \/ Start(d)) \/ (\E t \in Tasks : Open(t) \/ Hash(t) \/ Send(t) \/ Finish(t)) \/ Recv \/ CollectorEnd
Spec == Init /\ [][Next]_vars /\ WF_vars(Next)

Bounded == \A d \in Devices : Cardinality(InFlight(d)) <= Factor * Pool[d] /\ Cardinality(Running(d)) <= Pool[d]
OpenBounded == open >= 0 /\ open <= OpenLimit
\* the result does not depend on the schedule
Expected == {<<t, k>> : t \in Tasks \ FailSet, k \in 1..RunSize}
Confluent == collected => map = Expected
NoDeadlock == collected \/ ENABLED Next
Termination == <>collected
=============================================================================
