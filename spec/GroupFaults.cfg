CONSTANTS
  NFiles = 3
  MaxFaults = 1
  RfSet <- MCRf
SPECIFICATION Spec
INVARIANTS Complete Isolated
CHECK_DEADLOCK FALSE
