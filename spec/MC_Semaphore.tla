---------------------------- MODULE MC_Semaphore ----------------------------
(* Exhaustive configurations of Semaphore.tla: closed systems of 2..N threads.                  *)
EXTENDS Semaphore, TLC

CONSTANTS MaxPairs,     \* acquire/release pairs per thread
          PermitSet     \* set of initial permit counts to explore

Rep(s, n) == IF n = 0 THEN <<>> ELSE IF n = 1 THEN s ELSE IF n = 2 THEN s \o s ELSE s \o s \o s

\* every thread performs k[t] acquire/release pairs (k[t] = 0: thread absent)
PairProgs == { [t \in Threads |-> Rep(<<"A", "R">>, k[t])] : k \in [Threads -> 0..MaxPairs] }

\* guards released on another thread: thread 1 acquires and hands over, thread 2 takes and releases;
\* the remaining threads do pairs
HandProgs == { [t \in Threads |-> IF t = 1 THEN Rep(<<"A", "H">>, n)
                                  ELSE IF t = 2 THEN Rep(<<"X">>, n)
                                  ELSE Rep(<<"A", "R">>, m)] : n \in 1..MaxPairs, m \in 0..1 }

\* condition-variable use: permits may be 0, thread 1 posts, the others acquire (and never release):
\* closed because posts + permits >= acquires
CvarProgs == { [t \in Threads |-> IF t = 1 THEN Rep(<<"P">>, n) ELSE IF t <= 1 + n THEN <<"A">> ELSE <<>>] : n \in 1..MaxPairs }

NonTrivial(p) == Cardinality({t \in Threads : p[t] # <<>>}) >= 2

Init == \E p \in PairProgs \cup HandProgs \cup CvarProgs : \E k \in PermitSet :
           /\ NonTrivial(p)
           \* closed system: a run of pairs needs at least one permit; cvar programs work from 0
           /\ (p \in PairProgs \cup HandProgs => k >= 1)
           /\ InitWith(p, k)

Spec == Init /\ [][Next]_vars /\ Fairness
SafetySpec == Init /\ [][Next]_vars
=============================================================================
