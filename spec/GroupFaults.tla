----------------------------- MODULE GroupFaults -----------------------------
(* C15 (and the pruning argument of C03) on the staged pipeline of `fclones group`:                    *)
(*   size -> prefix hash -> suffix hash -> contents hash, a replication filter between the stages       *)
(*   (permissive: never prunes when searching for under-replicated files) and the strict filter at      *)
(*   the end; a group whose files all have one id, or that is too short for a stage, passes through.    *)
(* A read of a file may fail at any stage (<= MaxFaults failures): the file is then dropped.            *)
(* Claim: the report equals the report of the same tree without the failed files, whatever the stage    *)
(* at which each failure happened; and without failures the report is the filtered content partition.   *)
EXTENDS Integers, FiniteSets, Sequences, TLC

CONSTANTS NFiles, MaxFaults, RfSet       \* RfSet: set of <<kind, rf>> filters
Files == 1..NFiles
Stages == <<"prefix", "suffix", "contents">>
\* a content = <<length class, prefix symbol, middle symbol, suffix symbol>>; short files (length class 1) have no middle/suffix
Contents == {<<1, p, 0, 0>> : p \in 1..2} \cup {<<2, p, m, s>> : p \in 1..2, m \in 1..2, s \in 1..2}
Key(c, st) == CASE st = "prefix" -> <<c[1], c[2]>> [] st = "suffix" -> <<c[1], c[2], c[4]>> [] st = "contents" -> c
Applies(c, st) == st = "prefix" \/ c[1] = 2          \* suffix and contents stages only for files longer than the prefix

VARIABLES content, ino, rf, failAt, done
vars == <<content, ino, rf, failAt, done>>

Replicas(g) == Cardinality({ino[f] : f \in g})
Permissive(g) == IF rf[1] = "over" THEN Replicas(g) > rf[2] ELSE TRUE
Strict(g) == IF rf[1] = "over" THEN Replicas(g) > rf[2] ELSE Replicas(g) < rf[2]

\* one stage: groups needing work are re-split by the stage key, failed files vanish; the others pass through
Split(g, st, failed) == LET alive == {f \in g : ~(f \in failed /\ failAt[f] = st)}
                        IN {{f \in alive : Key(content[f], st) = k} : k \in {Key(content[f], st) : f \in alive}}
NeedsWork(g, st) == Replicas(g) > 1 /\ \A f \in g : Applies(content[f], st)
StageOf(groups, st, failed, last) ==
    LET res == UNION {IF NeedsWork(g, st) THEN Split(g, st, failed) ELSE {g} : g \in groups}
    IN {g \in res : g # {} /\ (IF last THEN Strict(g) ELSE Permissive(g))}
BySize(S) == {g \in {{f \in S : content[f][1] = l} : l \in 1..2} : g # {} /\ Permissive(g)}
Report(S, failed) == LET g1 == StageOf(BySize(S), "prefix", failed, FALSE)
                         g2 == StageOf(g1, "suffix", failed, FALSE)
                     IN StageOf(g2, "contents", failed, TRUE)

Canon(i) == \A f \in Files : i[f] <= f /\ (i[f] = f \/ \E g \in 1..(f - 1) : i[g] = i[f])       \* canonical inode numbering
Dummy == [f \in Files |-> <<1, 1, 0, 0>>]
Init == content = Dummy /\ ino = [f \in Files |-> f] /\ rf = <<"over", 1>> /\ failAt = [f \in Files |-> "none"] /\ done = 0
\* inputs are chosen in two steps so that TLC's workers share the evaluation
Pick1 == /\ done = 0 /\ done' = 1
         /\ \E i \in {x \in [Files -> 1..NFiles] : Canon(x)}, r \in RfSet, fa \in [Files -> {"none", "prefix", "suffix", "contents"}] :
               /\ Cardinality({f \in Files : fa[f] # "none"}) <= MaxFaults
               /\ ino' = i /\ rf' = r /\ failAt' = fa
         /\ UNCHANGED content
Pick2 == /\ done = 1 /\ done' = 2
         /\ \E c \in [Files -> Contents] : (\A f, g \in Files : ino[f] = ino[g] => c[f] = c[g]) /\ content' = c      \* hard links share their content
         /\ UNCHANGED <<ino, rf, failAt>>
Next == Pick1 \/ Pick2
Spec == Init /\ [][Next]_vars

\* a failure only counts if the file is still a candidate at that stage (it is then really read)
Failed == {f \in Files : failAt[f] # "none"}
ReallyFailed == {f \in Failed : Applies(content[f], failAt[f])}
Expected(S) == {g \in {{f \in S : content[f] = c} : c \in {content[f] : f \in S}} : Strict(g)}
\* C03 (no faults): the pipeline with its early pruning reports exactly the qualifying content classes
Complete == done = 2 => Report(Files, {}) = Expected(Files)
\* C15: with failures the report is the report of the tree without the files whose read really failed
\* (a planned failure of a file that is pruned before it would be read does not happen)
Isolated == done = 2 => \E X \in SUBSET Failed : Report(Files, Failed) = Report(Files \ X, {})
=============================================================================
