CONSTANTS
  K = 3
  PrioSet = {"top", "most-recently-modified"}
  WithDrop = FALSE
INIT Init
NEXT Next
INVARIANT Inv
CHECK_DEADLOCK FALSE
