------------------------------ MODULE Grouping ------------------------------
(* The staged grouping pipeline of `fclones group` (src/group.rs `group_files`):                          *)
(*   size -> [same-path removal] -> prefix -> suffix -> contents                                         *)
(* or, with --transform, one single stage `transform` over all files (`group_transformed`): every        *)
(* identity is piped through the program once, its paths take the length and the hash of the OUTPUT.     *)
(* one action per critical section of the code: a stage of `rehash` is Begin (split the groups by the    *)
(* pre-filter into groups to hash and groups to pass through, cut the former into runs of same-identity  *)
(* paths), one Task step per run in ANY order (the pool tasks: hash the first path of the run, send every  *)
(* path of the run with that hash; if reading through a path fails the next path of the run is tried and   *)
(* only the paths that failed are left out - before fix 5162a8b the whole run vanished), and   *)
(* End (regroup everything received by                                                                     *)
(* (length, hash), append the passed groups, apply the post-filter).                                      *)
(*                                                                                                        *)
(* The input is the record `inp` chosen by Init and never changed:                                        *)
(*   inp.files  sequence of [ino, root, len, pk, sk, ck]: identity, isolate root (0 = none), length, and   *)
(*              the classes of the three windows the code hashes: pk of bytes [0, P) when len <= P else   *)
(*              [0, Pm); sk of the last min(S, len) bytes; ck of the whole file.  A class is an "atom":    *)
(*              equal atoms <=> equal byte strings, in ONE name space for all windows.  The ideal hash of *)
(*              a window is its atom ("up to hash collisions" is exactly this idealisation), and a hash   *)
(*              value is a SET of atoms with XOR = symmetric difference, because the suffix stage         *)
(*              combines `old_hash ^ new_hash`: a file whose suffix window repeats its prefix window      *)
(*              gets the hash {} = 0, and (a, b) collides with (b, a).  Validation of real traces found    *)
(*              exactly such merged candidate groups after the suffix stage; the contents stage splits    *)
(*              them again, so only --skip-content-hash is affected (see SoundSkipIdeal) - EXCEPT when the *)
(*              suffix window IS the prefix window (file not longer than both chunk lengths, yet at least *)
(*              the suffix threshold): x ^ x = 0 for every such file and the contents stage skips them   *)
(*              (len < P).  TLC shows Sound violated with SLen >= len (MC_Grouping_bigS, 4 paths); the     *)
(*              code now keeps the old hash when the new one equals it, and so does NewHash.              *)
(*              With --transform also tlen, tk: length and atom of the transform output.                   *)
(*   inp.cfg    [kind, rf, isolate, matchLinks, skipContent, transform, P, T]                              *)
(*   inp.bad    set of paths through which the file cannot be read (C15); `failed` collects the paths     *)
(*              whose read was really attempted and failed                                                *)
(* MC_Grouping derives pk/sk/ck from explicit byte strings, so that the window arithmetic itself (which   *)
(* bytes a stage looks at, which stage may be skipped for which length) is checked against byte           *)
(* equality; Trace_Grouping takes them from the driver's own comparison of the real files and checks      *)
(* the StageDone events of the real run against End.                                                      *)
EXTENDS Partition, TLC

VARIABLES inp,     \* the input (constant along a behaviour)
          stage,   \* "size" | "prefix" | "suffix" | "contents" | "filter" | "transform" | "done"
          phase,   \* "begin" | "tasks"          (inside a rehash stage)
          groups,  \* set of [len, hash, files]: the candidate groups between stages
          todo,    \* runs still to hash: set of [len, old, ino, files]
          got,     \* received over the channel: set of [f, len, hash]
          pass,    \* groups passed through unhashed
          failed   \* paths whose read was attempted and failed
vars == <<inp, stage, phase, groups, todo, got, pass, failed>>

N == Len(inp.files)
Paths == 1..N
File(f) == inp.files[f]
Cfg == inp.cfg

\* ---- replica counting (Partition.tla's sub-groups: by isolate root, else by identity unless links are matched)
CaseOf(S) == LET s == SetToSeq(S) IN
             [files |-> [i \in 1..Len(s) |-> [ino |-> File(s[i]).ino, root |-> File(s[i]).root]],
              cliN |-> 0, hdrN |-> 1, cliRoots |-> FALSE, hdrIsolate |-> Cfg.isolate, cliLinks |-> FALSE, hdrLinks |-> Cfg.matchLinks]
Replicas(S) == IF S = {} THEN 0 ELSE Len(SubGroups(CaseOf(S)))
Matches(S) == IF Cfg.kind = "over" THEN Replicas(S) > Cfg.rf ELSE TRUE           \* FileGroup::matches
Strictly(S) == IF Cfg.kind = "over" THEN Replicas(S) > Cfg.rf ELSE Replicas(S) < Cfg.rf   \* matches_strictly
Uniq(S) == Cardinality({File(f).ino : f \in S})                                    \* unique_count (files sorted by id)

\* ---- stage parameters
Pre(s, g) == CASE s = "prefix" -> Uniq(g.files) > 1
               [] s = "suffix" -> g.len >= Cfg.T /\ Uniq(g.files) > 1
               [] s = "contents" -> Uniq(g.files) > 1 /\ g.len >= Cfg.P
               [] s = "transform" -> TRUE
After(s) == CASE s = "size" -> "prefix" [] s = "prefix" -> "suffix"
              [] s = "suffix" -> (IF Cfg.skipContent THEN "filter" ELSE "contents")
              [] s = "contents" -> "done" [] s = "transform" -> "done"
\* every stage but the last applies the permissive filter (always true for --rf-under / --unique); the contents stage the
\* strict one.  With --skip-content-hash the suffix stage is the last hashing stage and a separate FinalFilter step
\* applies the strict filter: before fix c637788 the code lacked that step - TLC reported FilterHonoured violated for
\* kind = "under" (two identical files listed as `unique`) and the real binary confirmed it.
Post(s, g) == IF s \in {"contents", "transform"} THEN Strictly(g.files) ELSE Matches(g.files)
Xor(a, b) == (a \ b) \cup (b \ a)
NewHash(s, f, old) == CASE s = "prefix" -> {File(f).pk}
                        [] s = "suffix" -> IF old = {File(f).sk} THEN old ELSE Xor(old, {File(f).sk})   \* old_hash ^ new_hash, but not x ^ x (fix below)
                        [] s = "contents" -> {File(f).ck}
                        [] s = "transform" -> {File(f).tk}
\* the length a path carries after the stage: the hash function of the transform stage updates it to the output length
NewLen(s, f, old) == IF s = "transform" THEN File(f).tlen ELSE old
\* --transform: one pseudo group of all paths (its length and hash "do not matter, will be computed")
AllInOne == {[len |-> 0, hash |-> {}, files |-> Paths]}

Init0 == /\ stage = "size" /\ phase = "begin" /\ groups = {} /\ todo = {} /\ got = {} /\ pass = {} /\ failed = {}

\* group_by_size + remove_same_files (paths are distinct in the model)
BySize == /\ stage = "size"
          /\ groups' = {g \in {[len |-> l, hash |-> {}, files |-> {f \in Paths : File(f).len = l}] : l \in {File(f).len : f \in Paths}} :
                           Matches(g.files)}
          /\ stage' = "prefix" /\ UNCHANGED <<inp, phase, todo, got, pass, failed>>

Begin == /\ stage \in {"prefix", "suffix", "contents", "transform"} /\ phase = "begin"
         /\ pass' = {g \in groups : ~Pre(stage, g)}
         /\ todo' = UNION {{[len |-> g.len, old |-> g.hash, ino |-> i, files |-> {f \in g.files : File(f).ino = i}] :
                               i \in {File(f).ino : f \in g.files}} : g \in {h \in groups : Pre(stage, h)}}
         /\ got' = {} /\ phase' = "tasks" /\ UNCHANGED <<inp, stage, groups, failed>>

\* the paths of a run are tried in some order until one can be read: `dropped` are the ones whose read failed before that.
\* A path of inp.bad MAY fail at any attempt (a fault can begin at a later stage); once it has failed it is out of every later stage.
Task(r) == /\ phase = "tasks" /\ r \in todo
           /\ todo' = todo \ {r}
           /\ \E dropped \in SUBSET (r.files \cap inp.bad) :
                 /\ got' = got \cup {[f |-> f, len |-> NewLen(stage, CHOOSE x \in r.files : TRUE, r.len),
                                        hash |-> NewHash(stage, CHOOSE x \in r.files : TRUE, r.old)] : f \in r.files \ dropped}
                 /\ failed' = failed \cup dropped
           /\ UNCHANGED <<inp, stage, phase, groups, pass>>

Regroup(G) == {[len |-> k[1], hash |-> k[2], files |-> {x.f : x \in {y \in G : <<y.len, y.hash>> = k}}] : k \in {<<x.len, x.hash>> : x \in G}}
End == /\ phase = "tasks" /\ todo = {}
       /\ groups' = {g \in Regroup(got) \cup pass : Post(stage, g)}
       /\ stage' = After(stage) /\ phase' = "begin" /\ got' = {} /\ pass' = {}
       /\ UNCHANGED <<inp, todo, failed>>

FinalFilter == /\ stage = "filter"
               /\ groups' = {g \in groups : Strictly(g.files)}
               /\ stage' = "done" /\ UNCHANGED <<inp, phase, todo, got, pass, failed>>

Next0 == BySize \/ Begin \/ (\E r \in todo : Task(r)) \/ End \/ FinalFilter

\* ---- the declarative meaning
Good == Paths \ failed
SameContent(a, b) == IF Cfg.transform THEN File(a).tlen = File(b).tlen /\ File(a).tk = File(b).tk
                     ELSE File(a).len = File(b).len /\ File(a).ck = File(b).ck
EffLen(f) == IF Cfg.transform /\ stage = "done" THEN File(f).tlen ELSE File(f).len
EndsHash(f) == IF File(f).len >= Cfg.T THEN Xor({File(f).pk}, {File(f).sk}) ELSE {File(f).pk}
SameEnds(a, b) == File(a).len = File(b).len /\ EndsHash(a) = EndsHash(b)
SameEndsIdeal(a, b) == File(a).len = File(b).len /\ File(a).pk = File(b).pk /\ (File(a).len >= Cfg.T => File(a).sk = File(b).sk)
ClassOf(f, S) == {x \in S : SameContent(f, x)}
Classes(S) == {ClassOf(f, S) : f \in S}

TypeOK == /\ stage \in {"size", "prefix", "suffix", "contents", "filter", "transform", "done"} /\ phase \in {"begin", "tasks"}
          /\ \A g \in groups : g.files \subseteq Paths /\ (g.files # {} \/ stage = "transform")
                                /\ (stage # "transform" => \A f \in g.files : EffLen(f) = g.len)
          /\ \A g, h \in groups : g # h => g.files \cap h.files = {}
\* C01: a reported group holds only byte-identical files (hard links of one file are identical by nature)
Sound == stage = "done" /\ ~Cfg.skipContent => \A g \in groups : \A a, b \in g.files : SameContent(a, b)
SoundSkip == stage = "done" /\ Cfg.skipContent => \A g \in groups : \A a, b \in g.files : File(a).ino = File(b).ino \/ SameEnds(a, b)
\* what one would expect of the dangerous mode; FALSE for the code because of the XOR (not an invariant, kept to show it)
SoundSkipIdeal == stage = "done" /\ Cfg.skipContent => \A g \in groups : \A a, b \in g.files : File(a).ino = File(b).ino \/ SameEndsIdeal(a, b)
EndsClasses(S) == {{x \in S : SameEndsIdeal(f, x)} : f \in S}
\* the dangerous mode still never loses or splits a class of files that agree in both windows
CompleteSkip == stage = "done" /\ Cfg.skipContent /\ inp.bad = {} /\ Cfg.kind = "over" =>
                   \A C \in EndsClasses(Paths) : Strictly(C) => \E g \in groups : C \subseteq g.files
\* C03/C06: with every file readable, the report is exactly the set of qualifying content classes
Complete == stage = "done" /\ ~Cfg.skipContent /\ inp.bad = {} => {g.files : g \in groups} = {C \in Classes(Paths) : Strictly(C)}
\* C03 "never silently dropped at any stage": identical readable files of a qualifying class stay together in every candidate set
NeverSplit == stage \notin {"size", "transform"} /\ phase = "begin" /\ Cfg.kind = "over" =>
                 \A C \in Classes(Good) : Strictly(C) => \E g \in groups : C \subseteq g.files
\* C15: a file that could not be read is never grouped with a different file, and the others are grouped as if it were absent
BadAlone == stage = "done" => \A g \in groups : g.files \cap failed = {}
OthersUnaffected == stage = "done" /\ ~Cfg.skipContent => {g.files : g \in groups} = {C \in Classes(Good) : Strictly(C)}
\* C06 for the dangerous mode too: what is reported satisfies the replication filter
FilterHonoured == stage = "done" => \A g \in groups : Strictly(g.files)
=============================================================================
