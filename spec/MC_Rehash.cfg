CONSTANTS
  Devices = {"d1", "d2"}
  NRuns <- MCNRuns
  RunSize = 2
  Pool <- MCPool2
  Factor = 1
  OpenLimit = 1
  FailSet <- MCFail
SPECIFICATION Spec
INVARIANTS Bounded OpenBounded Confluent NoDeadlock
PROPERTY Termination
CHECK_DEADLOCK FALSE
