---------------------------- MODULE Trace_Rehash ----------------------------
(* Validation of the hook events of real `rehash` invocations (RehashStart, DeviceStart, TaskSpawn,   *)
(* TaskStart, TaskDone, CollectorEnd) against the task life cycle of Rehash.tla:                      *)
(*   spawned -> started -> done per task; at most 8 x pool threads tasks in flight per device and at   *)
(*   most pool threads running; the collector ends only after every task is done and has received      *)
(*   exactly what the tasks sent.                                                                      *)
EXTENDS Integers, Sequences, FiniteSets, TLC, Json, IOUtils
Rec == ndJsonDeserialize(IOEnv.TRACE)
VARIABLES l, st, dev, threads, sent, open
\* st: [task -> "spawned"|"started"|"done"], dev: [task -> device], threads: [<<rh, device>> -> pool threads]
\* sent: [rh -> files sent by finished tasks], open: set of rh whose collector has not ended
vars == <<l, st, dev, threads, sent, open>>
R == Rec[l]
IsEv(e) == l <= Len(Rec) /\ Rec[l].ev = e /\ l' = l + 1
Put(f, k, v) == [x \in DOMAIN f \cup {k} |-> IF x = k THEN v ELSE f[x]]

Init == TLCSet(1, 1) /\ TLCSet(2, 0) /\ l = 1 /\ st = <<>> /\ dev = <<>> /\ threads = <<>> /\ sent = <<>> /\ open = {}
TReset == IsEv("Reset") /\ st' = <<>> /\ dev' = <<>> /\ threads' = <<>> /\ sent' = <<>> /\ open' = {}
TRehashStart == IsEv("RehashStart") /\ sent' = Put(sent, R.rh, 0) /\ open' = open \cup {R.rh} /\ UNCHANGED <<st, dev, threads>>
TDeviceStart == IsEv("DeviceStart") /\ R.rh \in open /\ threads' = Put(threads, <<R.rh, R.dev>>, R.threads) /\ UNCHANGED <<st, dev, sent, open>>
TSpawn == IsEv("TaskSpawn") /\ R.rh \in open /\ <<R.rh, R.dev>> \in DOMAIN threads /\ R.task \notin DOMAIN st
          /\ st' = Put(st, R.task, "spawned") /\ dev' = Put(dev, R.task, <<R.rh, R.dev>>) /\ UNCHANGED <<threads, sent, open>>
TStart == IsEv("TaskStart") /\ R.task \in DOMAIN st /\ st[R.task] = "spawned"
          /\ st' = [st EXCEPT ![R.task] = "started"] /\ UNCHANGED <<dev, threads, sent, open>>
TDone == IsEv("TaskDone") /\ R.task \in DOMAIN st /\ st[R.task] = "started"
         /\ st' = [st EXCEPT ![R.task] = "done"] /\ sent' = [sent EXCEPT ![R.rh] = @ + R.sent] /\ UNCHANGED <<dev, threads, open>>
\* the collector may end only when every task of this rehash is done, and it has received everything that was sent
TCollectorEnd == /\ IsEv("CollectorEnd") /\ R.rh \in open
                 /\ \A t \in DOMAIN st : dev[t][1] = R.rh => st[t] = "done"
                 /\ R.received = sent[R.rh]
                 /\ open' = open \ {R.rh} /\ UNCHANGED <<st, dev, threads, sent>>
\* events of other components (semaphores) are not part of this view
TOther == l <= Len(Rec) /\ Rec[l].ev \notin {"Reset", "RehashStart", "DeviceStart", "TaskSpawn", "TaskStart", "TaskDone", "CollectorEnd"}
          /\ l' = l + 1 /\ UNCHANGED <<st, dev, threads, sent, open>>
Next == TReset \/ TRehashStart \/ TDeviceStart \/ TSpawn \/ TStart \/ TDone \/ TCollectorEnd \/ TOther
TraceSpec == Init /\ [][Next]_vars

InFlight(k) == Cardinality({t \in DOMAIN st : dev[t] = k /\ st[t] # "done"})
Running(k) == Cardinality({t \in DOMAIN st : dev[t] = k /\ st[t] = "started"})
Bounded == \A k \in DOMAIN threads : InFlight(k) <= 8 * threads[k] /\ Running(k) <= threads[k]
Fail(name) == IF TLCGet(2) = 0 THEN TLCSet(2, l) /\ PrintT(<<"INVFAIL", name, l - 1>>) ELSE TRUE
Track == TLCSet(1, IF TLCGet(1) > l THEN TLCGet(1) ELSE l) /\ (Bounded \/ Fail("Bounded"))
Accepted == /\ TLCGet(2) = 0
            /\ \/ TLCGet(1) = Len(Rec) + 1
               \/ PrintT(<<"REJECTED", TLCGet(1), ToJson(Rec[TLCGet(1)])>>) /\ FALSE
=============================================================================
