----------------------------- MODULE StaleReport -----------------------------
(* C04: the time line of `fclones group` followed by a dedupe command, with a user editing members    *)
(* of a group at any moment from the first read of the file by `group` until the dedupe command        *)
(* inspects it.  Each file is read ReadsPerFile times by `group` (prefix / suffix / contents stage);   *)
(* the report header carries a timestamp (taken where StampPos says: the code of the pinned tree       *)
(* takes it when the report is written, i.e. "end"); the dedupe command stats every member, drops the   *)
(* ones that are not regular or have another length, skips the group if any remaining member is newer   *)
(* than the timestamp or missing, keeps the first and removes the rest.                                 *)
EXTENDS Integers, Sequences, FiniteSets, TLC

CONSTANTS Files,          \* sequence of file names in report order
          ReadsPerFile, MaxEdits,
          StampPos        \* "start" | "end"

F == {Files[i] : i \in 1..Len(Files)}
Kinds == {"same-len", "other-len", "delete", "recreate", "dir", "touch"}

VARIABLES clock, phase,   \* "group" | "between" | "dedupe" | "done"
          node,           \* [F -> [k: "file"|"dir"|"gone", c: content, len, mt]]
          reads,          \* [F -> number of reads done by group]
          stamp, edits, removed, kept, hist
vars == <<clock, phase, node, reads, stamp, edits, removed, kept, hist>>

Init == /\ clock = 2 /\ phase = "group"
        /\ node = [f \in F |-> [k |-> "file", c |-> <<"A", 0>>, len |-> 1, mt |-> 0]]
        /\ reads = [f \in F |-> 0]
        /\ stamp = IF StampPos = "start" THEN 1 ELSE 0
        /\ edits = 0 /\ removed = {} /\ kept = {} /\ hist = <<>>

Tick == clock' = clock + 1

Read(f) == /\ phase = "group" /\ reads[f] < ReadsPerFile
           /\ reads' = [reads EXCEPT ![f] = @ + 1] /\ Tick
           /\ UNCHANGED <<phase, node, stamp, edits, removed, kept, hist>>

WriteReport == /\ phase = "group" /\ \A f \in F : reads[f] = ReadsPerFile
               /\ stamp' = (IF StampPos = "end" THEN clock ELSE stamp) /\ Tick
               /\ phase' = "between"
               /\ UNCHANGED <<node, reads, edits, removed, kept, hist>>

\* ordinary file operations: every one of them sets the modification time to now
Edit(f, kind) ==
    /\ phase \in {"group", "between"} /\ reads[f] >= 1 /\ edits < MaxEdits
    /\ node[f].k # "gone" \/ kind = "recreate"
    /\ node' = [node EXCEPT ![f] =
          CASE kind = "same-len"  -> [k |-> "file", c |-> <<"B", clock>>, len |-> 1, mt |-> clock]
            [] kind = "other-len" -> [k |-> "file", c |-> <<"C", clock>>, len |-> 2, mt |-> clock]
            [] kind = "delete"    -> [k |-> "gone", c |-> <<"-", 0>>, len |-> 0, mt |-> 0]
            [] kind = "recreate"  -> [k |-> "file", c |-> <<"D", clock>>, len |-> 1, mt |-> clock]
            [] kind = "dir"       -> [k |-> "dir", c |-> <<"-", 0>>, len |-> 0, mt |-> clock]
            [] kind = "touch"     -> [@ EXCEPT !.mt = clock]]
    /\ edits' = edits + 1 /\ Tick
    /\ hist' = Append(hist, <<f, kind, phase, reads[f]>>)
    /\ UNCHANGED <<phase, reads, stamp, removed, kept>>

StartDedupe == phase = "between" /\ phase' = "dedupe" /\ UNCHANGED <<clock, node, reads, stamp, edits, removed, kept, hist>>

\* the dedupe command inspects the group (one atomic stat of every member) and acts
Eligible == SelectSeq(Files, LAMBDA f : node[f].k = "file" /\ node[f].len = 1)
Skip == (\E f \in F : node[f].k = "gone") \/ (\E i \in 1..Len(Eligible) : node[Eligible[i]].mt > stamp)
Dedupe == /\ phase = "dedupe" /\ phase' = "done"
          /\ IF Skip \/ Len(Eligible) < 2 THEN removed' = {} /\ kept' = F
             ELSE /\ kept' = {Eligible[1]} \cup (F \ {Eligible[i] : i \in 1..Len(Eligible)})
                  /\ removed' = {Eligible[i] : i \in 2..Len(Eligible)}
          /\ UNCHANGED <<clock, node, reads, stamp, edits, hist>>

Next == (\E f \in F : Read(f)) \/ WriteReport \/ (\E f \in F, k \in Kinds : Edit(f, k)) \/ StartDedupe \/ Dedupe
Spec == Init /\ [][Next]_vars

\* C04: no file is removed whose current content is not also retained
NoChangedDataLost == phase = "done" => \A f \in removed : \E q \in F \ removed : node[q].k = "file" /\ node[q].c = node[f].c
=============================================================================
