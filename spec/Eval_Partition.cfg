INIT Init
NEXT Next
