------------------------------ MODULE Eval_Walk ------------------------------
EXTENDS Walk, Json, IOUtils, SequencesExt
Cases == ndJsonDeserialize(IOEnv.CASES)
ASSUME ndJsonSerialize(IOEnv.OUT, [i \in 1..Len(Cases) |-> [id |-> Cases[i].id, selected |-> SortSeq(SetToSeq(Selected(Cases[i])), LAMBDA a, b : a < b)]])
VARIABLE x
Init == x = 0
Next == UNCHANGED x
=============================================================================
