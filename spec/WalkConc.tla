------------------------------ MODULE WalkConc ------------------------------
(* The walk as the code runs it (src/walk.rs): a bag of pending visits processed by the pool in ANY order,    *)
(* with - under --follow-links - a shared set of visits already made.  Walk.tla says WHAT must be selected     *)
(* (the union over all routes); this module checks that the concurrent procedure delivers exactly that         *)
(* under every schedule, and that it terminates on link cycles.                                               *)
(*   KeyByCtx = TRUE   the set is keyed by (entry, ignore files in effect): the code after fix 3489b31         *)
(*   KeyByCtx = FALSE  keyed by the entry alone and filled before the ignore check: the code before the fix;   *)
(*                     TLC finds the schedule in which a directory reached first through a link under other    *)
(*                     ignore files hides the files the direct route would have found (Confluent is violated). *)
(* A case `c` is the record of Walk.tla.  The context of a visit is the set of directories with an ignore      *)
(* file entered on its route (the code's stack of ignore files).  --depth is left out (not combined with        *)
(* --follow-links, see DESIGN.md).                                                                             *)
EXTENDS Walk

CONSTANTS CaseSet,   \* the trees to walk (records of Walk.tla)
          KeyByCtx
VARIABLES c,         \* the case being walked: chosen by Init, never changed
          tasks,     \* pending visits: set of [e, ctx, dev0] (dev0 = file system of the input path the visit descends from)
          visited,   \* visits made (only used with --follow-links)
          out        \* reported entries
wvars == <<c, tasks, visited, out>>

DirsWithRules == {d \in Ids(c) : \E e \in Ids(c) : \E i \in 1..Len(c.entries[e].ignBy) : c.entries[e].ignBy[i] = d}
IgnoredIn(e, ctx) == ~c.opts.noIgnore /\ \E i \in 1..Len(c.entries[e].ignBy) : c.entries[e].ignBy[i] \in ctx
Key(t) == <<t.e, IF KeyByCtx THEN t.ctx ELSE {}>>

WInit == /\ c \in CaseSet
         /\ tasks = {[e |-> c.roots[i], ctx |-> {}, dev0 |-> c.entries[c.roots[i]].dev] : i \in 1..Len(c.roots)}
         /\ visited = {} /\ out = {}

DoVisit(t) ==
    LET en == c.entries[t.e]
        rest == tasks \ {t}
        hiddenSkip == en.hidden /\ ~c.opts.hidden
        seenBefore == c.opts.follow /\ Key(t) \in visited
        mark == IF c.opts.follow /\ ~hiddenSkip THEN visited \cup {Key(t)} ELSE visited IN
    /\ t \in tasks /\ UNCHANGED c
    /\ IF hiddenSkip \/ seenBefore
       THEN tasks' = rest /\ visited' = visited /\ out' = out
       ELSE /\ visited' = mark
            /\ IF IgnoredIn(t.e, t.ctx)
               THEN tasks' = rest /\ out' = out
               ELSE CASE en.kind = "file" -> tasks' = rest /\ out' = (IF en.sel THEN out \cup {t.e} ELSE out)
                      [] en.kind = "dir" ->
                            LET ctx2 == t.ctx \cup ({t.e} \cap DirsWithRules) IN
                            /\ tasks' = (IF c.opts.oneFs /\ en.dev # t.dev0 THEN rest
                                          ELSE rest \cup {[e |-> ch, ctx |-> ctx2, dev0 |-> t.dev0] : ch \in Children(c, t.e)})
                            /\ out' = out
                      [] en.kind = "link" ->
                            IF en.target = 0 \/ ~(c.opts.follow \/ c.opts.report) THEN tasks' = rest /\ out' = out
                            ELSE IF c.opts.report /\ c.entries[en.target].kind = "file"
                                 THEN tasks' = rest /\ out' = (IF en.sel THEN out \cup {t.e} ELSE out)
                            ELSE IF c.opts.follow /\ ~en.blocked /\ (~c.opts.oneFs \/ c.entries[en.target].dev = t.dev0)
                                 THEN tasks' = rest \cup {[e |-> en.target, ctx |-> t.ctx, dev0 |-> t.dev0]} /\ out' = out
                                 ELSE tasks' = rest /\ out' = out
                      [] OTHER -> tasks' = rest /\ out' = out

WNext == \E t \in tasks : DoVisit(t)
WSpec == WInit /\ [][WNext]_wvars /\ WF_wvars(WNext)

\* whatever the order of the visits, the walk ends with exactly the declared selection
Confluent == tasks = {} => out = Selected(c)
NeverTooMuch == out \subseteq Selected(c)
Terminates == <>(tasks = {})
=============================================================================
