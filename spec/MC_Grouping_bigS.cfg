SPECIFICATION MCSpec
CONSTANTS
  NP = 4
  Lens = {6, 7}
  PLen = 8
  PMin = 2
  SLen = 8
  TLen = 6
  Kinds = {"over", "under"}
  Rfs = {1}
  Isos = {FALSE}
  Skips = {FALSE}
  Bads = {{}}
  Longs = {FALSE}
  RootSet = {0}
  Transforms = {"none"}
INVARIANTS MCTypeOK MCSound MCSoundSkip MCComplete MCCompleteSkip MCNeverSplit MCBadAlone MCOthersUnaffected MCFilterHonoured
CHECK_DEADLOCK FALSE
