---------------------------- MODULE Obs_WalkConc ----------------------------
(* The concurrent walk model-checked on the trees of the real runs (the cases the driver also gives to    *)
(* Eval_Walk): every schedule of the visits on every observed small tree with --follow-links.             *)
EXTENDS WalkConc, Json, IOUtils
ObsCases == LET s == ndJsonDeserialize(IOEnv.CASES) IN {s[i] : i \in 1..Len(s)}
=============================================================================
