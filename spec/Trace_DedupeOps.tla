--------------------------- MODULE Trace_DedupeOps ---------------------------
(* Validation of runs of the real `fclones remove|link|link -s|dedupe|move` (syscalls recorded by   *)
(* the LD_PRELOAD shim, inventories taken by the driver) against DedupeOps.tla.                      *)
(*                                                                                                  *)
(* A trace file holds many runs of one (Op, NoLock) configuration:                                   *)
(*   Reset  initial inventory, the script (dropped files, retained file, move targets), foreign       *)
(*          locks, the fault plan class ("none" | "fail1" | "fail2" | "kill")                         *)
(*   Call   one system call of the command (mutating calls and the lock prefix), with its outcome     *)
(*   Kill   the process was killed by the shim at this point                                          *)
(*   End    the REAL inventory after the process ended, `Processed N`, number of warnings             *)
(* Mode "full": the calls drive the specification's step relation, every invariant is evaluated     *)
(*   after every call, and at End the abstract file system must equal the real inventory.            *)
(* Mode "obs": only Reset and End are used: the C05/C18/C20 statements are evaluated directly on      *)
(*   the real inventories (independent of the order of calls).                                       *)
EXTENDS DedupeOps, Json, IOUtils

CONSTANT Mode
Full == Mode = "full"

Rec == ndJsonDeserialize(IOEnv.TRACE)

VARIABLES l, plan, members, ended, mt0
tvars == <<vars, l, plan, members, ended, mt0>>

R == Rec[l]
IsEv(e) == l <= Len(Rec) /\ Rec[l].ev = e /\ l' = l + 1

Entry(r) == IF r.k = "file" THEN [k |-> "file", ino |-> r.ino, c |-> r.c]
            ELSE IF r.k = "link" THEN [k |-> "link", to |-> r.to] ELSE [k |-> r.k]
RangeOf(s) == {s[i] : i \in 1..Len(s)}
FsOf(files) == [q \in {r.p : r \in RangeOf(files)} |-> Entry(CHOOSE r \in RangeOf(files) : r.p = q)]
MapOf(pairs) == [q \in {r.f : r \in RangeOf(pairs)} |-> (CHOOSE r \in RangeOf(pairs) : r.f = q).v]

TInit == /\ TLCSet(1, 1) /\ TLCSet(2, 0)
         /\ l = 1 /\ plan = "none" /\ members = {} /\ ended = FALSE /\ mt0 = <<>>
         /\ fs = <<>> /\ fs0 = <<>> /\ dropped = {} /\ keep = <<>> /\ mvt = <<>> /\ locked = {}
         /\ pc = <<>> /\ tmp = <<>> /\ res = <<>> /\ rbfail = <<>> /\ crashed = FALSE /\ nextino = 1000

TReset == /\ IsEv("Reset")
          /\ fs' = FsOf(R.files) /\ fs0' = FsOf(R.files)
          /\ dropped' = RangeOf(R.dropped) /\ members' = RangeOf(R.members)
          /\ keep' = MapOf(R.keep) /\ mvt' = MapOf(R.mvt) /\ locked' = RangeOf(R.locked)
          /\ pc' = [f \in RangeOf(R.dropped) |-> "start"] /\ tmp' = [f \in RangeOf(R.dropped) |-> ""]
          /\ res' = [f \in RangeOf(R.dropped) |-> "none"] /\ rbfail' = [f \in RangeOf(R.dropped) |-> FALSE]
          /\ crashed' = FALSE /\ nextino' = 1000 /\ plan' = R.plan /\ ended' = FALSE /\ mt0' = MapOf(R.mt)

Keep0 == UNCHANGED <<fs0, dropped, keep, mvt, locked, crashed, plan, members, ended, mt0>>

\* which command does an observed call belong to, and which step of its program is it?
CallStep ==
  LET c == R.call  ok == R.ok IN
  \E f \in dropped :
     \/ c = "lockopen" /\ R.p1 = f /\ (IF ~ok /\ R.errno \in {38, 95} THEN LockUnsupported(f) ELSE LockOpen(f, ok))
     \/ c = "lock" /\ R.p1 = f /\ (IF ~ok /\ R.errno \in {38, 95} THEN LockUnsupported(f) ELSE Lock(f, ok))
     \/ c = "unlink" /\ R.p1 = f /\ (Rm(f, ok) \/ CpRmSrc(f, ok))
     \/ c = "unlink" /\ tmp[f] # "" /\ R.p1 = tmp[f] /\ (RmTmp(f, ok) \/ ClRmTmp(f, ok) \/ BkCleanup(f, ok))
     \/ c = "rename" /\ R.p1 = f /\ R.sib = f /\ MvTmp(f, R.p2, ok)
     \/ c = "rename" /\ tmp[f] # "" /\ R.p1 = tmp[f] /\ R.p2 = f /\ Rollback(f, ok)
     \/ c = "rename" /\ R.p1 = f /\ Op = "move" /\ R.p2 = mvt[f] /\ MvRename(f, ok)
     \/ c = "link" /\ R.p2 = f /\ R.p1 = keep[f] /\ Op = "hard" /\ MkLink(f, ok)
     \/ c = "symlink" /\ R.p1 = f /\ R.p2 = keep[f] /\ Op = "soft" /\ MkLink(f, ok)
     \/ c = "create" /\ R.sib = f /\ BkCreate(f, R.p1, ok)
     \/ c = "create" /\ R.p1 = f /\ ClOpen(f, ok)
     \/ c = "create" /\ Op = "move" /\ R.p1 = mvt[f] /\ CpCreate(f, ok)
     \/ c = "clone" /\ tmp[f] # "" /\ R.p1 = tmp[f] /\ R.p2 = f /\ BkClone(f, ok)
     \/ c = "clone" /\ R.p1 = f /\ R.p2 = keep[f] /\ ClClone(f, ok)
     \/ c = "copy" /\ Op = "move" /\ R.p1 = mvt[f] /\ CpCopy(f, ok)
     \/ c = "mkdir" /\ Op = "move" /\ Mkdir(f, R.p1, ok \/ (R.errno = 17 /\ (R.p1 \notin DOMAIN fs \/ fs[R.p1].k = "dir")))   \* create_dir_all accepts an existing directory; with several threads the EEXIST of one thread may be logged before the successful mkdir of another
     \/ c = "utimes" /\ R.p1 = f /\ Times(f, ok)

TCall == /\ IsEv("Call") /\ Keep0
         /\ IF Full THEN ~crashed /\ CallStep ELSE UNCHANGED <<fs, pc, tmp, res, rbfail, nextino>>

\* unlogged steps: the exists-check of move (a stat), the absent lock prefix under --no-lock
TInner == /\ Full /\ l <= Len(Rec) /\ ~crashed /\ ~ended /\ Keep0 /\ UNCHANGED l
          /\ \E f \in dropped : MvCheck(f) \/ SkipLock(f)

TKill == /\ IsEv("Kill") /\ crashed' = TRUE
         /\ UNCHANGED <<fs, fs0, dropped, keep, mvt, locked, pc, tmp, res, rbfail, nextino, plan, members, ended, mt0>>

(* ---- End: the real inventory ---- *)
Inv == FsOf(R.inv)
\* an interrupted copy leaves an empty or a partial target: the model does not distinguish the two
Incomplete(c) == IF c = "EMPTY" THEN "PARTIAL" ELSE c
SameShape(A, B) == /\ DOMAIN A = DOMAIN B
                   /\ \A p \in DOMAIN A : /\ A[p].k = B[p].k
                                          /\ (A[p].k = "file" => Incomplete(A[p].c) = Incomplete(B[p].c))
                                          /\ (A[p].k = "link" => A[p].to = B[p].to)
                   /\ \A p, q \in DOMAIN A : (A[p].k = "file" /\ A[q].k = "file") => ((A[p].ino = A[q].ino) <=> (B[p].ino = B[q].ino))
CountOk == Cardinality({f \in dropped : res[f] = "ok"})
TEnd == /\ IsEv("End")
        /\ IF Full THEN /\ SameShape(fs, Inv)                                        \* binds FS semantics to the kernel's
                        /\ (~crashed => (\A f \in dropped : pc[f] = "done") /\ (R.processed = -2 \/ R.processed = CountOk))     \* -2: the count printed by the command is not comparable (other groups in the report)
                        /\ UNCHANGED fs
           ELSE fs' = Inv                                                            \* obs: look at the real state only
        /\ ended' = TRUE
        /\ UNCHANGED <<fs0, dropped, keep, mvt, locked, pc, tmp, res, rbfail, crashed, nextino, plan, members, mt0>>

TNext == TReset \/ TCall \/ TInner \/ TKill \/ TEnd
TraceSpec == TInit /\ [][TNext]_tvars

(* ---- the properties on the real end state (mode obs; members = all paths of the group) ---- *)
Prev == Rec[l - 1]          \* the End record when ended
HoldsIn(S, c) == \E p \in DOMAIN S : Read(S, p) = c
SibHolds(f) == \E r \in RangeOf(Prev.sibs) : r.f = f /\ Read(fs, r.v) = Orig(f)
ObsAtomicFile(f) ==
    \/ Read(fs, f) = Orig(f)
    \/ Op = "remove" /\ f \notin DOMAIN fs
    \/ Op = "move" /\ f \notin DOMAIN fs /\ f \in DOMAIN mvt /\ Read(fs, mvt[f]) = Orig(f)
    \/ (plan \in {"kill", "fail2"}) /\ SibHolds(f)
ObsAtomic == (ended /\ ~Full) => \A f \in members : ObsAtomicFile(f)
\* at least max(1,n) = 1 replica of the group is left completely untouched, and its bytes are the group's
ObsRetained == (ended /\ ~Full) => \E m \in members : m \in DOMAIN fs /\ fs[m] = fs0[m] /\ MapOf(Prev.mt)[m] = mt0[m]
\* nothing outside the group changes (for move: apart from what is created under the target directory)
ObsOutside == (ended /\ ~Full) => \A p \in DOMAIN fs0 : p \notin members => (p \in DOMAIN fs /\ fs[p] = fs0[p])
\* a file locked by someone else is exactly as before
ObsLocked == (ended /\ ~Full /\ ~NoLock) => \A f \in locked : f \in DOMAIN fs /\ fs[f] = fs0[f]
\* the unlocked droppable files are processed normally when nothing else interferes
ObsOthersProcessed == (ended /\ ~Full /\ ~NoLock /\ plan = "none" /\ locked # {}) =>
                         \A f \in dropped \ locked : ~(f \in DOMAIN fs /\ fs[f] = fs0[f] /\ Op # "reflink")
Replaced(f) == CASE Op = "remove" -> f \notin DOMAIN fs
                 [] Op = "hard" -> f \in DOMAIN fs /\ fs[f].k = "file" /\ \E m \in members : m # f /\ m \in DOMAIN fs0 /\ m \in DOMAIN fs /\ fs[m] = fs0[m] /\ fs[m].k = "file" /\ fs[m].ino = fs[f].ino /\ fs0[f].ino # fs0[m].ino
                 [] Op = "soft" -> f \in DOMAIN fs /\ fs[f].k = "link"
                 [] Op = "move" -> f \notin DOMAIN fs
                 [] OTHER -> FALSE
\* a path that was a hard link of an untouched member before and is one now (group reported with --match-links): the end state cannot
\* tell whether `link` replaced it by an identical link or not
Unknowable(f) == /\ Op = "hard" /\ f \in DOMAIN fs /\ f \in DOMAIN fs0 /\ fs[f].k = "file" /\ fs0[f].k = "file"
                 /\ \E m \in members : m # f /\ m \in DOMAIN fs0 /\ m \in DOMAIN fs /\ fs[m] = fs0[m] /\ fs[m].k = "file" /\ fs[m].ino = fs[f].ino /\ fs0[f].ino = fs0[m].ino
\* Processed N = number of files really replaced; a failure is warned about
ObsCount == (ended /\ ~Full /\ plan # "kill" /\ Op # "reflink") =>
               LET sure == Cardinality({f \in members : Replaced(f)})
                   maybe == Cardinality({f \in dropped : ~Replaced(f) /\ Unknowable(f)}) IN
               /\ (Prev.processed = -2 \/ (sure <= Prev.processed /\ Prev.processed <= sure + maybe))
ObsWarned == (ended /\ ~Full /\ plan \in {"fail1", "fail2"} /\ Op # "reflink" /\ Op # "move") =>
               (Cardinality({f \in dropped : Replaced(f) \/ Unknowable(f)}) < Cardinality(dropped) => Prev.warns >= 1)
\* single fault, no crash: no original is left stranded under a temporary name
ObsRestored == (ended /\ ~Full /\ plan \in {"none", "fail1"}) => \A f \in members : Op \in {"remove", "move"} \/ Read(fs, f) = Orig(f)

(* ---- specification invariants on the reconstructed intermediate states (mode full) ---- *)
SpecInv(name) == CASE name = "Atomic" -> Atomic [] name = "RetainedUntouched" -> RetainedUntouched
                   [] name = "FailedRestored" -> FailedRestored [] name = "SucceededReplaced" -> SucceededReplaced
                   [] name = "NoOverwrite" -> NoOverwrite [] name = "SourceLast" -> SourceLast
                   [] name = "LockedLeftAlone" -> LockedLeftAlone

Fail(name) == IF TLCGet(2) = 0 THEN TLCSet(2, l) /\ PrintT(<<"INVFAIL", name, l - 1>>) ELSE TRUE
Chk(name, P) == P \/ Fail(name)
Track == /\ TLCSet(1, IF TLCGet(1) > l THEN TLCGet(1) ELSE l)
         /\ IF Full /\ dropped # {} /\ ~ended
            THEN /\ Chk("Atomic", Atomic) /\ Chk("RetainedUntouched", RetainedUntouched)
                 /\ Chk("FailedRestored", FailedRestored) /\ Chk("SucceededReplaced", SucceededReplaced)
                 /\ Chk("NoOverwrite", NoOverwrite) /\ Chk("SourceLast", SourceLast) /\ Chk("LockedLeftAlone", LockedLeftAlone)
            ELSE TRUE
         /\ IF ~Full /\ ended
            THEN /\ Chk("ObsAtomic", ObsAtomic) /\ Chk("ObsRetained", ObsRetained) /\ Chk("ObsOutside", ObsOutside)
                 /\ Chk("ObsLocked", ObsLocked) /\ Chk("ObsOthersProcessed", ObsOthersProcessed)
                 /\ Chk("ObsCount", ObsCount) /\ Chk("ObsWarned", ObsWarned) /\ Chk("ObsRestored", ObsRestored)
            ELSE TRUE
Accepted == /\ TLCGet(2) = 0
            /\ \/ TLCGet(1) = Len(Rec) + 1
               \/ /\ PrintT(<<"REJECTED", TLCGet(1), ToJson(Rec[TLCGet(1)])>>)
                  /\ FALSE
=============================================================================
