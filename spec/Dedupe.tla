------------------------------- MODULE Dedupe -------------------------------
(* C02 at design level: `fclones group` followed by `fclones remove` composed over a small universe    *)
(* of paths in two roots.  A path is absent, a regular file (an inode with a content), or a symbolic     *)
(* link to another path.  `group` (flags -S report links, -I isolate roots, -H match links) reports the  *)
(* classes of equal content whose replica count exceeds 1, where - as in the code - the identity of a     *)
(* reported path is the identity of the file it resolves to, and sub-grouping by root takes precedence     *)
(* over sub-grouping by identity.  `remove` keeps the first sub-group of every group and removes the       *)
(* paths of the others.  Invariant: every content stored in a regular file before is still stored in a      *)
(* regular file afterwards.  With SymlinksAcrossRoots = FALSE the combination -S -I with a link from one    *)
(* root to a file of the other root is left out: that is exactly the open finding recorded for C02.         *)
EXTENDS Integers, FiniteSets, Sequences, TLC

CONSTANTS SymlinksAcrossRoots
Paths == {"A/x", "A/y", "B/x", "B/y"}
RootOf(p) == IF p \in {"A/x", "A/y"} THEN 1 ELSE 2
Order == <<"A/x", "A/y", "B/x", "B/y">>          \* report order = path order, roots kept together
Inodes == 1..3
Content(i) == IF i = 3 THEN "c2" ELSE "c1"       \* inodes 1 and 2 hold the same bytes

VARIABLES node,        \* [Paths -> [k: "none"] | [k: "file", i] | [k: "link", to]]
          flagS, flagI, flagH, phase
vars == <<node, flagS, flagI, flagH, phase>>

Nodes == {[k |-> "none", i |-> 0, to |-> "-"]} \cup {[k |-> "file", i |-> i, to |-> "-"] : i \in Inodes}
         \cup {[k |-> "link", i |-> 0, to |-> q] : q \in Paths}
Resolves(n, p) == IF n[p].k = "file" THEN p ELSE IF n[p].k = "link" /\ n[n[p].to].k = "file" THEN n[p].to ELSE "-"
Init == /\ node \in [Paths -> Nodes]
        /\ \A p \in Paths : node[p].k = "link" => (node[p].to # p /\ node[node[p].to].k = "file")        \* links to regular files only
        /\ flagS \in BOOLEAN /\ flagI \in BOOLEAN /\ flagH \in BOOLEAN
        /\ ~(flagH /\ flagS)                                                                            \* the documented-dangerous pair
        /\ (SymlinksAcrossRoots \/ ~(flagS /\ flagI) \/ \A p \in Paths : node[p].k = "link" => RootOf(p) = RootOf(node[p].to))
        /\ phase = "start"

\* what `group` scans: regular files, and with -S also links to files
Scanned == {p \in Paths : node[p].k = "file" \/ (flagS /\ node[p].k = "link")}
IdOf(p) == node[Resolves(node, p)].i
ContentOf(p) == Content(IdOf(p))
\* sub-groups of a set of paths, in report order: by root when -I, else by identity unless -H
SubKey(p) == IF flagI THEN <<"root", RootOf(p)>> ELSE IF flagH THEN <<"path", p>> ELSE <<"id", IdOf(p)>>
InOrder(S) == SelectSeq(Order, LAMBDA p : p \in S)
SubGroupsOf(S) == LET seq == InOrder(S)
                      firsts == SelectSeq(seq, LAMBDA p : \A q \in S : (SubKey(q) = SubKey(p)) => (q = p \/ ~(\E i, j \in 1..Len(seq) : seq[i] = q /\ seq[j] = p /\ i < j)))
                  IN [k \in 1..Len(firsts) |-> {q \in S : SubKey(q) = SubKey(firsts[k])}]
Classes == {{p \in Scanned : ContentOf(p) = c} : c \in {"c1", "c2"}}
Reported == {g \in Classes : g # {} /\ Len(SubGroupsOf(g)) > 1}

\* remove: keep the first sub-group of every reported group, remove the other paths
Dropped == UNION {UNION {SubGroupsOf(g)[k] : k \in 2..Len(SubGroupsOf(g))} : g \in Reported}
Remove == /\ phase = "start" /\ phase' = "done"
          /\ node' = [p \in Paths |-> IF p \in Dropped THEN [k |-> "none", i |-> 0, to |-> "-"] ELSE node[p]]
          /\ UNCHANGED <<flagS, flagI, flagH>>
Spec == Init /\ [][Remove]_vars

Stored(n) == {Content(n[p].i) : p \in {q \in Paths : n[q].k = "file"}}
ContentKept == phase = "start" => Stored(node) \subseteq Stored([p \in Paths |-> IF p \in Dropped THEN [k |-> "none", i |-> 0, to |-> "-"] ELSE node[p]])
=============================================================================
