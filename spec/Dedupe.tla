------------------------------- MODULE Dedupe -------------------------------
(* C02 at design level: `fclones group` followed by `fclones remove` composed over a small universe    *)
(* of paths in two roots.  A path is absent, a regular file (an inode with a content), or a symbolic     *)
(* link to another path.  `group` (flags -S report links, -I isolate roots, -H match links) reports the  *)
(* classes of equal content whose replica count exceeds 1, where - as in the code - the identity of a     *)
(* reported path is the identity of the file it resolves to, and sub-grouping by root takes precedence     *)
(* over sub-grouping by identity.  `remove` keeps the first sub-group of every group and removes the       *)
(* paths of the others.  Invariant: every content stored in a regular file before is still stored in a      *)
(* regular file afterwards.  With SymlinksAcrossRoots = FALSE the combination -S -I with a link from one    *)
(* root to a file of the other root is left out: with it, and without the repair (Rescue = FALSE), TLC shows  *)
(* the finding recorded for C02: the only regular file is removed and a dangling link is kept.  NoDangling:   *)
(* a retained link still resolves.                                                                          *)
EXTENDS Integers, FiniteSets, Sequences, TLC

CONSTANTS SymlinksAcrossRoots,
          Rescue        \* the repair: a sub-group holding the file that a retained symbolic link resolves to is retained as well;
                        \* FALSE = the code before the repair
Paths == {"A/x", "A/y", "B/x", "B/y"}
RootOf(p) == IF p \in {"A/x", "A/y"} THEN 1 ELSE 2
Order == <<"A/x", "A/y", "B/x", "B/y">>          \* report order = path order, roots kept together
Inodes == 1..3
Content(i) == IF i = 3 THEN "c2" ELSE "c1"       \* inodes 1 and 2 hold the same bytes

VARIABLES node,        \* [Paths -> [k: "none"] | [k: "file", i] | [k: "link", to]]
          flagS, flagI, flagH, phase
vars == <<node, flagS, flagI, flagH, phase>>

Nodes == {[k |-> "none", i |-> 0, to |-> "-"]} \cup {[k |-> "file", i |-> i, to |-> "-"] : i \in Inodes}
         \cup {[k |-> "link", i |-> 0, to |-> q] : q \in Paths}
\* a link resolves in at most two hops (link -> link -> file); "-" = it does not resolve
Resolves(n, p) == IF n[p].k = "file" THEN p
                  ELSE IF n[p].k # "link" THEN "-"
                  ELSE LET q == n[p].to IN
                       IF n[q].k = "file" THEN q
                       ELSE IF n[q].k = "link" /\ n[n[q].to].k = "file" THEN n[q].to ELSE "-"
\* the paths a link passes through on its way to the file (without the link itself)
Chain(n, p) == IF n[p].k # "link" THEN {} ELSE LET q == n[p].to IN IF n[q].k = "link" THEN {q, n[q].to} ELSE {q}
Init == /\ node \in [Paths -> Nodes]
        /\ \A p \in Paths : node[p].k = "link" => (node[p].to # p /\ Resolves(node, p) # "-")           \* links (chains of <= 2 links) to regular files
        /\ flagS \in BOOLEAN /\ flagI \in BOOLEAN /\ flagH \in BOOLEAN
        /\ ~(flagH /\ flagS)                                                                            \* the documented-dangerous pair
        /\ (SymlinksAcrossRoots \/ ~(flagS /\ flagI) \/ \A p \in Paths : node[p].k = "link" => \A q \in Chain(node, p) : RootOf(p) = RootOf(q))
        /\ phase = "start"

\* what `group` scans: regular files, and with -S also links to files
Scanned == {p \in Paths : node[p].k = "file" \/ (flagS /\ node[p].k = "link")}
IdOf(p) == node[Resolves(node, p)].i
ContentOf(p) == Content(IdOf(p))
\* sub-groups of a set of paths, in report order: by root when -I, else by identity unless -H
SubKey(p) == IF flagI THEN <<"root", RootOf(p)>> ELSE IF flagH THEN <<"path", p>> ELSE <<"id", IdOf(p)>>
InOrder(S) == SelectSeq(Order, LAMBDA p : p \in S)
SubGroupsOf(S) == LET seq == InOrder(S)
                      firsts == SelectSeq(seq, LAMBDA p : \A q \in S : (SubKey(q) = SubKey(p)) => (q = p \/ ~(\E i, j \in 1..Len(seq) : seq[i] = q /\ seq[j] = p /\ i < j)))
                  IN [k \in 1..Len(firsts) |-> {q \in S : SubKey(q) = SubKey(firsts[k])}]
Classes == {{p \in Scanned : ContentOf(p) = c} : c \in {"c1", "c2"}}
Reported == {g \in Classes : g # {} /\ Len(SubGroupsOf(g)) > 1}

\* remove: keep the first sub-group of every reported group, remove the other paths - except, with Rescue, the sub-groups that
\* hold the target of a retained link (computed as a least fixed point: rescued sub-groups retain their links too)
RECURSIVE RetainedOf(_, _)
RetainedOf(g, kept) ==
    LET sgs == SubGroupsOf(g)
        keptPaths == UNION {sgs[k] : k \in kept}
        needed == UNION {Chain(node, q) : q \in {x \in keptPaths : node[x].k = "link"}}     \* every path the retained links pass through
        more == {k \in (1..Len(sgs)) \ kept : sgs[k] \cap needed # {}}
    IN IF more = {} THEN kept ELSE RetainedOf(g, kept \cup more)
KeptOf(g) == IF Rescue THEN RetainedOf(g, {1}) ELSE {1}
Dropped == UNION {UNION {SubGroupsOf(g)[k] : k \in (1..Len(SubGroupsOf(g))) \ KeptOf(g)} : g \in Reported}
Remove == /\ phase = "start" /\ phase' = "done"
          /\ node' = [p \in Paths |-> IF p \in Dropped THEN [k |-> "none", i |-> 0, to |-> "-"] ELSE node[p]]
          /\ UNCHANGED <<flagS, flagI, flagH>>
Spec == Init /\ [][Remove]_vars

Stored(n) == {Content(n[p].i) : p \in {q \in Paths : n[q].k = "file"}}
After == [p \in Paths |-> IF p \in Dropped THEN [k |-> "none", i |-> 0, to |-> "-"] ELSE node[p]]
KeptPathsAll == UNION {UNION {SubGroupsOf(g)[k] : k \in KeptOf(g)} : g \in Reported}
NoDangling == phase = "start" => \A p \in KeptPathsAll : node[p].k = "link" => Resolves(After, p) = Resolves(node, p)      \* retained reported links still resolve
ContentKept == phase = "start" => Stored(node) \subseteq Stored([p \in Paths |-> IF p \in Dropped THEN [k |-> "none", i |-> 0, to |-> "-"] ELSE node[p]])
=============================================================================
