---------------------------- MODULE MC_DedupeOps ----------------------------
(* Exhaustive exploration of DedupeOps.tla: one group {a, b, c}, a retained, b and c dropped, their  *)
(* commands interleaved; every call may fail (at most MaxFaults injected failures), the process may   *)
(* crash at any point; foreign locks on any subset of the dropped files; for move an optional         *)
(* pre-existing file at one target.                                                                   *)
EXTENDS DedupeOps

CONSTANTS MaxFaults, Collision,  \* Collision: BOOLEAN - a file already exists at the move target of b
          SameIno,               \* BOOLEAN - c is a hard link of the retained a (a group reported with --match-links)
          TruncOnOpen            \* BOOLEAN - FALSE: the code; TRUE: the deviation ClOpenTrunc (must be refuted)

VARIABLE nfaults
mcvars == <<vars, nfaults>>

F(i, c) == [k |-> "file", ino |-> i, c |-> c]
Base == [p \in {"a", "b", "c", "o", "T"} |->
           CASE p = "a" -> F(1, "X") [] p = "b" -> F(2, "X") [] p = "c" -> F(IF SameIno THEN 1 ELSE 3, "X") [] p = "o" -> F(4, "Z") [] p = "T" -> [k |-> "dir"]]
Fs0 == IF Collision /\ Op = "move" THEN Put(Base, "T/b", F(5, "Y")) ELSE Base

Init == /\ fs = Fs0 /\ fs0 = Fs0 /\ dropped = {"b", "c"}
        /\ keep = [f \in {"b", "c"} |-> "a"]
        /\ mvt = [f \in {"b", "c"} |-> IF f = "b" THEN "T/b" ELSE "T/c"]
        /\ locked \in SUBSET {"b", "c"}
        /\ pc = [f \in {"b", "c"} |-> "start"] /\ tmp = [f \in {"b", "c"} |-> ""]
        /\ res = [f \in {"b", "c"} |-> "none"] /\ rbfail = [f \in {"b", "c"} |-> FALSE]
        /\ crashed = FALSE /\ nextino = 10 /\ nfaults = 0

Tmp(f) == IF f = "b" THEN "b~" ELSE "c~"

\* outcome of a call: success, or an injected failure while the budget lasts
Outcome(A(_)) == \/ A(TRUE) /\ UNCHANGED nfaults
                 \/ nfaults < MaxFaults /\ A(FALSE) /\ nfaults' = nfaults + 1

StepOf(f) ==
    \/ Outcome(LAMBDA ok : LockOpen(f, ok))
    \/ (IF f \in locked THEN Lock(f, FALSE) /\ UNCHANGED nfaults ELSE Outcome(LAMBDA ok : Lock(f, ok)))
    \/ SkipLock(f) /\ UNCHANGED nfaults
    \/ Outcome(LAMBDA ok : Rm(f, ok))
    \/ Outcome(LAMBDA ok : MvTmp(f, Tmp(f), ok))
    \/ Outcome(LAMBDA ok : MkLink(f, ok))
    \/ Outcome(LAMBDA ok : Rollback(f, ok))
    \/ Outcome(LAMBDA ok : RmTmp(f, ok))
    \/ Outcome(LAMBDA ok : BkCreate(f, Tmp(f), ok))
    \/ Outcome(LAMBDA ok : BkClone(f, ok))
    \/ Outcome(LAMBDA ok : BkCleanup(f, ok))
    \/ Outcome(LAMBDA ok : IF TruncOnOpen THEN ClOpenTrunc(f, ok) ELSE ClOpen(f, ok))
    \/ Outcome(LAMBDA ok : ClClone(f, ok))
    \/ Outcome(LAMBDA ok : ClRmTmp(f, ok))
    \/ Outcome(LAMBDA ok : Times(f, ok))
    \/ LockUnsupported(f) /\ nfaults < MaxFaults /\ nfaults' = nfaults + 1
    \/ MvCheck(f) /\ UNCHANGED nfaults
    \/ Outcome(LAMBDA ok : Mkdir(f, "T", ok))
    \/ Outcome(LAMBDA ok : MvRename(f, ok))
    \/ Outcome(LAMBDA ok : CpCreate(f, ok))
    \/ Outcome(LAMBDA ok : CpCopy(f, ok))
    \/ Outcome(LAMBDA ok : CpRmSrc(f, ok))

Crash == ~crashed /\ crashed' = TRUE /\ UNCHANGED <<fs, fs0, dropped, keep, mvt, locked, pc, tmp, res, rbfail, nextino, nfaults>>

Next == \/ ~crashed /\ \E f \in dropped : StepOf(f) /\ UNCHANGED <<fs0, dropped, keep, mvt, locked, crashed>>
        \/ Crash

Spec == Init /\ [][Next]_mcvars

AllDone == \A f \in dropped : pc[f] = "done"
\* the number of files reported as processed is the number of commands that succeeded
Count == Cardinality({f \in dropped : res[f] = "ok"})
\* without faults, crashes and locks every command succeeds
\* (a file cannot be cloned onto itself: with SameIno the `dedupe` of c fails, is rolled back and is not counted)
HappyPath == (AllDone /\ nfaults = 0 /\ ~crashed /\ (locked = {} \/ NoLock) /\ ~(Collision /\ Op = "move")) =>
                 Count = (IF SameIno /\ Op = "reflink" THEN 1 ELSE 2)
\* with a collision the colliding source is left in place
CollisionKept == (Collision /\ Op = "move" /\ AllDone) => (res["b"] = "err" /\ Untouched("b"))
=============================================================================
