----------------------------- MODULE ShellWords -----------------------------
(* C17: how fclones prints an argument or path for the shell (src/arg.rs `quote`) against how bash      *)
(* reads a word.  Symbols stand for the troublesome bytes/characters; a word is a non-empty sequence of   *)
(* symbols.  `quote` picks one of three styles; each style is lossless for a word only under a condition   *)
(* on the word (what bash would interpret in that style).  The theorem checked by TLC over all short words *)
(* is that the style chosen by the code is lossless for the word.  The enumeration of the words is also     *)
(* what is replayed through the real quote/split functions and through bash.                               *)
EXTENDS Integers, Sequences, FiniteSets, TLC

Syms == {"a", "sp", "tab", "nl", "sq", "dq", "bs", "dollar", "hash", "tilde", "star", "eq", "c01", "del", "zdot", "fffd", "xff", "smalltilde", "excl", "semi",
         "nbsp", "ideosp",      \* U+00A0, U+3000: white space to Unicode, ordinary characters to bash and to the code
         "pipe", "amp", "lt", "gt", "lp", "rp", "bq",          \* | & < > ( ) `  : shell syntax
         "qm", "lb", "rb",                                       \* ? [ ]        : file-name patterns (expanded when a matching file exists)
         "lbrace", "rbrace", "plus", "pct",                      \* { } + %      : quoted by the code; braces: see BraceExpands
         "comma", "dot", "one",                                  \* , . 1        : ordinary characters, but the material of brace expansion
         "trunc4", "trunc3"}                                     \* F0 9F 98 / E2 82: a multi-byte character cut short (invalid, one U+FFFD in the lossy view)

\* --- the code: src/arg.rs quote() ---
\* lossy view of the word: an invalid byte shows up as U+FFFD
Invalid == {"xff", "trunc4", "trunc3"}                                             \* not UTF-8: shown as U+FFFD by the lossy view
NeedsDollar(s) == s \in {"tab", "nl", "c01", "del", "fffd", "sq"} \cup Invalid      \* c < 0x20, 0x7f, U+FFFD, '
CodeSpecial == {"sp", "tab", "dq", "bs", "dollar", "hash", "star", "eq", "sq", "semi", "smalltilde", "tilde",
                "pipe", "amp", "lt", "gt", "lp", "rp", "bq", "qm", "lb", "rb", "lbrace", "rbrace", "plus", "pct"}     \* SPECIAL_CHARS
Style(w) == IF \E i \in 1..Len(w) : NeedsDollar(w[i]) THEN "dollar"
            ELSE IF \E i \in 1..Len(w) : w[i] \in CodeSpecial THEN "single" ELSE "bare"

\* --- bash: which symbols are not taken literally ---
\* anywhere in an unquoted word
BashUnquotedSpecial == {"sp", "tab", "nl", "sq", "dq", "bs", "dollar", "star", "semi", "pipe", "amp", "lt", "gt", "lp", "rp", "bq", "qm", "lb"}
\* only at the start of an unquoted word: comment, tilde expansion
BashLeadingSpecial == {"hash", "tilde"}
\* brace expansion of an unquoted word: {..,..} with a comma at the top level of the braces, or a sequence expression {x..y} between two
\* letters or two numbers (here: innermost braces only - enough for every word of the enumeration that expands)
Inner(w, i, j) == w[i] = "lbrace" /\ w[j] = "rbrace" /\ \A k \in (i + 1)..(j - 1) : w[k] \notin {"lbrace", "rbrace"}
SeqExpr(w, i, j) == j = i + 5 /\ w[i + 2] = "dot" /\ w[i + 3] = "dot" /\ w[i + 1] \in {"a", "one"} /\ w[i + 4] = w[i + 1]
BraceExpands(w) == \E i, j \in 1..Len(w) : i < j /\ Inner(w, i, j) /\ ((\E k \in (i + 1)..(j - 1) : w[k] = "comma") \/ SeqExpr(w, i, j))
LosslessBare(w) == /\ \A i \in 1..Len(w) : w[i] \notin BashUnquotedSpecial
                   /\ w[1] \notin BashLeadingSpecial
                   /\ ~BraceExpands(w)
                   /\ \A i \in 1..Len(w) : w[i] \notin Invalid       \* printed lossily: the bytes would be replaced
LosslessSingle(w) == /\ \A i \in 1..Len(w) : w[i] # "sq"          \* '...' cannot contain '
                     /\ \A i \in 1..Len(w) : w[i] \notin Invalid
LosslessDollar(w) == TRUE      \* $'...' with \' \\ \t \n \xHH escapes can carry every byte

Lossless(w) == CASE Style(w) = "bare" -> LosslessBare(w) [] Style(w) = "single" -> LosslessSingle(w) [] Style(w) = "dollar" -> LosslessDollar(w)

Words(n) == UNION {[1..k -> Syms] : k \in 1..n}
=============================================================================
