----------------------------- MODULE ShellWords -----------------------------
(* C17: how fclones prints an argument or path for the shell (src/arg.rs `quote`) against how bash      *)
(* reads a word.  Symbols stand for the troublesome bytes/characters; a word is a non-empty sequence of   *)
(* symbols.  `quote` picks one of three styles; each style is lossless for a word only under a condition   *)
(* on the word (what bash would interpret in that style).  The theorem checked by TLC over all short words *)
(* is that the style chosen by the code is lossless for the word.  The enumeration of the words is also     *)
(* what is replayed through the real quote/split functions and through bash.                               *)
EXTENDS Integers, Sequences, FiniteSets, TLC

Syms == {"a", "sp", "tab", "nl", "sq", "dq", "bs", "dollar", "hash", "tilde", "star", "eq", "c01", "del", "zdot", "fffd", "xff", "smalltilde", "excl", "semi",
         "nbsp", "ideosp",      \* U+00A0, U+3000: white space to Unicode, ordinary characters to bash and to the code
         "pipe", "amp", "lt", "gt", "lp", "rp", "bq",          \* | & < > ( ) `  : shell syntax
         "qm", "lb", "rb",                                       \* ? [ ]        : file-name patterns (expanded when a matching file exists)
         "lbrace", "rbrace", "plus", "pct"}                      \* { } + %      : quoted by the code, harmless to bash here

\* --- the code: src/arg.rs quote() ---
\* lossy view of the word: an invalid byte shows up as U+FFFD
NeedsDollar(s) == s \in {"tab", "nl", "c01", "del", "fffd", "xff", "sq"}           \* c < 0x20, 0x7f, U+FFFD, '
CodeSpecial == {"sp", "tab", "dq", "bs", "dollar", "hash", "star", "eq", "sq", "semi", "smalltilde", "tilde",
                "pipe", "amp", "lt", "gt", "lp", "rp", "bq", "qm", "lb", "rb", "lbrace", "rbrace", "plus", "pct"}     \* SPECIAL_CHARS
Style(w) == IF \E i \in 1..Len(w) : NeedsDollar(w[i]) THEN "dollar"
            ELSE IF \E i \in 1..Len(w) : w[i] \in CodeSpecial THEN "single" ELSE "bare"

\* --- bash: which symbols are not taken literally ---
\* anywhere in an unquoted word
BashUnquotedSpecial == {"sp", "tab", "nl", "sq", "dq", "bs", "dollar", "star", "semi", "pipe", "amp", "lt", "gt", "lp", "rp", "bq", "qm", "lb"}
\* only at the start of an unquoted word: comment, tilde expansion
BashLeadingSpecial == {"hash", "tilde"}
LosslessBare(w) == /\ \A i \in 1..Len(w) : w[i] \notin BashUnquotedSpecial
                   /\ w[1] \notin BashLeadingSpecial
                   /\ \A i \in 1..Len(w) : w[i] # "xff"          \* printed lossily: the byte would be replaced
LosslessSingle(w) == /\ \A i \in 1..Len(w) : w[i] # "sq"          \* '...' cannot contain '
                     /\ \A i \in 1..Len(w) : w[i] # "xff"
LosslessDollar(w) == TRUE      \* $'...' with \' \\ \t \n \xHH escapes can carry every byte

Lossless(w) == CASE Style(w) = "bare" -> LosslessBare(w) [] Style(w) = "single" -> LosslessSingle(w) [] Style(w) = "dollar" -> LosslessDollar(w)

Words(n) == UNION {[1..k -> Syms] : k \in 1..n}
=============================================================================
