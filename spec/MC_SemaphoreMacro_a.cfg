CONSTANTS
  N = 2
  MaxSpurious = 1
  MaxPairs = 2
  PermitSet = {1}
  Shape = "all"
SPECIFICATION Spec
INVARIANTS SafetyM NoStuck Emit
CHECK_DEADLOCK FALSE
