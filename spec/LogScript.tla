------------------------------ MODULE LogScript ------------------------------
(* The dry-run printer of dedupe commands (src/dedupe.rs log_script): command vectors of the groups   *)
(* are produced by a parallel iterator in ANY order, sent over a channel, pushed into a priority       *)
(* queue keyed by the group index and printed as soon as the next expected index is at the top.        *)
(* Property (C11): for every schedule of the producers the printed order is the report order and       *)
(* every group is printed.  `Skip` models a producer that does not send the item of a group (e.g.      *)
(* because its command vector is empty): the specification shows that this stalls the printer.         *)
EXTENDS Integers, Sequences, FiniteSets
CONSTANTS N, Skip      \* groups 0..N-1; Skip \subseteq 0..N-1: indices that are never sent
VARIABLES unsent, chan, queue, next, out, closed
vars == <<unsent, chan, queue, next, out, closed>>
Init == unsent = (0..(N - 1)) \ Skip /\ chan = {} /\ queue = {} /\ next = 0 /\ out = <<>> /\ closed = FALSE
Send == \E i \in unsent : unsent' = unsent \ {i} /\ chan' = chan \cup {i} /\ UNCHANGED <<queue, next, out, closed>>
Close == unsent = {} /\ ~closed /\ closed' = TRUE /\ UNCHANGED <<unsent, chan, queue, next, out>>
Recv == \E i \in chan : chan' = chan \ {i} /\ queue' = queue \cup {i} /\ UNCHANGED <<unsent, next, out, closed>>
Print == next \in queue /\ queue' = queue \ {next} /\ out' = Append(out, next) /\ next' = next + 1 /\ UNCHANGED <<unsent, chan, closed>>
Next == Send \/ Close \/ Recv \/ Print
Spec == Init /\ [][Next]_vars /\ WF_vars(Next)
Finished == closed /\ chan = {} /\ ~(next \in queue)
InOrder == \A k \in 1..Len(out) : out[k] = k - 1
AllPrinted == Finished => Len(out) = N
=============================================================================
