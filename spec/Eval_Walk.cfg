INIT Init
NEXT Next
