-------------------------- MODULE Scen_StaleReport --------------------------
(* Enumerates the edit histories of StaleReport.tla that are replayed on the real binary:            *)
(* (member, kind of ordinary file operation, position on the time line, dedupe operation, size class) *)
EXTENDS Integers, Sequences, FiniteSets, Json, IOUtils, TLC, SequencesExt
Members == {"a", "b", "c"}            \* a = first listed (kept by default), b, c = dropped by default
RealKinds == {"same-len", "other-len", "append", "truncate", "delete", "recreate", "dir", "symlink-dangling", "symlink-dir", "symlink-newer", "touch",
              "symlink-sibling", "symlink-sibling-chain", "symlink-sibling-dotdot"}   \* the member becomes a link to ANOTHER member: directly, in two relative hops through a subdirectory, with `..`
Positions == {"between", "mid1", "mid2", "mid3"}     \* midK = after the K-th close of the member by `group`
Ops == {"remove", "hard", "soft", "reflink", "move"}
Singles == {[edits |-> <<[f |-> f, kind |-> k, pos |-> p]>>, op |-> o] : f \in Members, k \in RealKinds, p \in Positions, o \in Ops}
\* pairs: one edit during the run and one between the runs, on different members
Pairs == {[edits |-> <<[f |-> f, kind |-> k, pos |-> "mid1"], [f |-> g, kind |-> j, pos |-> "between"]>>, op |-> o] :
             f \in {"a", "b"}, g \in {"a", "b"}, k \in {"same-len", "recreate"}, j \in {"same-len", "touch", "delete"}, o \in {"remove", "hard"}}
ASSUME ndJsonSerialize(IOEnv.OUT, SetToSeq(Singles \cup Pairs))
VARIABLE x
Init == x = 0
Next == UNCHANGED x
=============================================================================
