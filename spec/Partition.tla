------------------------------ MODULE Partition ------------------------------
(* The keep/drop rule of one group of a dedupe command (src/dedupe.rs `partition`), written        *)
(* declaratively from the documentation:                                                            *)
(*   - a replica is a sub-group: the files under one --isolate root (roots in the order given),      *)
(*     else the hard links of one file (unless --match-links), else a single path;                   *)
(*   - sub-groups are ranked lexicographically by the --priority list (first priority dominant,      *)
(*     ties by the next one, finally by report order); the LAST ranked are dropped first;            *)
(*   - a sub-group is protected if one of its files matches a keep pattern or not all of its files   *)
(*     match the drop patterns (--name/--path); protected sub-groups are never dropped;              *)
(*   - of the unprotected ones the first ranked are retained until max(1, n) sub-groups are          *)
(*     retained; the rest is dropped;                                                                *)
(*   - n, isolate roots, --match-links are inherited from the `group` command in the report header.  *)
(* A case c is a record: files (sequence, report order) of [ino, root, mt, at, cr, ct, nest, kp, dp], *)
(*   cliN (0 = not given), hdrN, cliRoots / hdrIsolate (BOOLEAN: roots apply), cliLinks, hdrLinks,   *)
(*   useDrop (drop patterns given), prios (sequence of strings).                                     *)
EXTENDS Integers, Sequences, FiniteSets, SequencesExt, FiniteSetsExt

Max2(a, b) == IF a >= b THEN a ELSE b
Min2(a, b) == IF a <= b THEN a ELSE b
SeqMax(s) == Max({s[i] : i \in 1..Len(s)})
SeqMin(s) == Min({s[i] : i \in 1..Len(s)})

EffN(c) == Max2(1, IF c.cliN > 0 THEN c.cliN ELSE c.hdrN)
EffLinks(c) == c.cliLinks \/ c.hdrLinks
EffRoots(c) == c.cliRoots \/ c.hdrIsolate

\* sub-groups as sequences of file indices; order: roots first (in root order), then by first appearance
RootsUsed(c) == IF EffRoots(c) THEN {c.files[i].root : i \in 1..Len(c.files)} \ {0} ELSE {}
InRoot(c, r) == SelectSeq([i \in 1..Len(c.files) |-> i], LAMBDA i : EffRoots(c) /\ c.files[i].root = r)
Rest(c) == SelectSeq([i \in 1..Len(c.files) |-> i], LAMBDA i : ~(EffRoots(c) /\ c.files[i].root # 0))
RootGroups(c) == LET rs == SortSeq(SetToSeq(RootsUsed(c)), LAMBDA a, b : a < b)
                 IN [k \in 1..Len(rs) |-> InRoot(c, rs[k])]
FirstWithIno(c, rest, ino) == CHOOSE k \in 1..Len(rest) : c.files[rest[k]].ino = ino /\ \A j \in 1..(k - 1) : c.files[rest[j]].ino # ino
IdGroups(c) == LET rest == Rest(c)
                   firsts == SelectSeq([k \in 1..Len(rest) |-> k], LAMBDA k : FirstWithIno(c, rest, c.files[rest[k]].ino) = k)
               IN IF EffLinks(c) THEN [k \in 1..Len(rest) |-> <<rest[k]>>]
                  ELSE [k \in 1..Len(firsts) |-> SelectSeq(rest, LAMBDA i : c.files[i].ino = c.files[rest[firsts[k]]].ino)]
SubGroups(c) == RootGroups(c) \o IdGroups(c)

Attr(c, sg, a) == [k \in 1..Len(sg) |-> c.files[sg[k]][a]]
\* larger key = ranked later = dropped earlier
KeyOf(c, sg, idx, prio) ==
    CASE prio = "top" -> 0 - idx
      [] prio = "bottom" -> idx
      [] prio = "newest" -> SeqMin(Attr(c, sg, "cr"))
      [] prio = "oldest" -> 0 - SeqMin(Attr(c, sg, "cr"))
      [] prio = "most-recently-modified" -> SeqMax(Attr(c, sg, "mt"))
      [] prio = "least-recently-modified" -> 0 - SeqMax(Attr(c, sg, "mt"))
      [] prio = "most-recently-accessed" -> SeqMax(Attr(c, sg, "at"))
      [] prio = "least-recently-accessed" -> 0 - SeqMax(Attr(c, sg, "at"))
      [] prio = "most-recent-status-change" -> SeqMax(Attr(c, sg, "ct"))
      [] prio = "least-recent-status-change" -> 0 - SeqMax(Attr(c, sg, "ct"))
      [] prio = "most-nested" -> SeqMax(Attr(c, sg, "nest"))
      [] prio = "least-nested" -> 0 - SeqMin(Attr(c, sg, "nest"))

RECURSIVE LexLess(_, _, _, _, _, _)
LexLess(c, sgs, i, j, prios, k) ==          \* sub-group i ranked before sub-group j
    IF k > Len(prios) THEN i < j
    ELSE LET a == KeyOf(c, sgs[i], i, prios[k])  b == KeyOf(c, sgs[j], j, prios[k])
         IN IF a < b THEN TRUE ELSE IF a > b THEN FALSE ELSE LexLess(c, sgs, i, j, prios, k + 1)

Ranked(c) == LET sgs == SubGroups(c)
             IN SortSeq([i \in 1..Len(sgs) |-> i], LAMBDA i, j : LexLess(c, sgs, i, j, c.prios, 1))

Protected(c, sg) == \/ \E k \in 1..Len(sg) : c.files[sg[k]].kp
                    \/ c.useDrop /\ ~(\A k \in 1..Len(sg) : c.files[sg[k]].dp)

Split(c) == LET sgs == SubGroups(c)
                r == Ranked(c)
                keep0 == SelectSeq(r, LAMBDA i : Protected(c, sgs[i]))
                cand == SelectSeq(r, LAMBDA i : ~Protected(c, sgs[i]))
                need == Min2(Len(cand), Max2(0, EffN(c) - Len(keep0)))
            IN [kept |-> keep0 \o SubSeq(cand, 1, need), dropped |-> SubSeq(cand, need + 1, Len(cand)), sgs |-> sgs]

\* the set of file indices that are removed / replaced / moved
DroppedFiles(c) == LET s == Split(c) IN UNION {{s.sgs[s.dropped[k]][j] : j \in 1..Len(s.sgs[s.dropped[k]])} : k \in 1..Len(s.dropped)}

(* ---- consequences the property states explicitly; checked by TLC on every evaluated case ---- *)
KeptNeverDropped(c) == \A i \in DroppedFiles(c) : ~c.files[i].kp
OnlyMatchingDropped(c) == c.useDrop => \A i \in DroppedFiles(c) : c.files[i].dp
SubGroupsWhole(c) == \A k \in 1..Len(SubGroups(c)) : LET sg == SubGroups(c)[k] IN
                        ({sg[j] : j \in 1..Len(sg)} \subseteq DroppedFiles(c)) \/ ({sg[j] : j \in 1..Len(sg)} \cap DroppedFiles(c) = {})
EnoughSurvive(c) == LET s == Split(c) IN Len(s.kept) >= Min2(EffN(c), Len(s.sgs))
Theorems(c) == KeptNeverDropped(c) /\ OnlyMatchingDropped(c) /\ SubGroupsWhole(c) /\ EnoughSurvive(c)
=============================================================================
