------------------------------- MODULE MC_Glob -------------------------------
(* Bounded-exhaustive enumeration: every glob of up to MaxTokens tokens over the token set below,       *)
(* evaluated on every string of up to MaxLen characters over Alphabet; one output line per glob.        *)
EXTENDS Glob, Json
CONSTANTS MaxTokens, MaxLen, WithCI
\* "%" stands for a non-ASCII letter (the driver substitutes U+017C): TLC 1.8 / the Json module printed that letter as "|" in a few
\* of several hundred thousand places, deterministically, so the specification stays ASCII
Alphabet == {"a", "A", ".", "-", "%", "/"}
Lit(c) == [t |-> "lit", c |-> c, e |-> FALSE]
EscLit(c) == [t |-> "lit", c |-> c, e |-> TRUE]      \* written with a backslash in the glob text: still the literal character
L1(c) == <<Lit(c)>>
Tokens == {Lit("a"), Lit("A"), EscLit("a"), EscLit("-"), Lit("."), Lit("-"), Lit("+"), Lit("("), Lit("%"), Lit("/"),
           [t |-> "any1"], [t |-> "star"], [t |-> "dstar"],
           [t |-> "class", s |-> {"a", "."}, neg |-> FALSE], [t |-> "class", s |-> {"a"}, neg |-> TRUE],
           [t |-> "alt", alts |-> <<L1("a"), <<Lit("A"), Lit(".")>>>>],
           [t |-> "alt", alts |-> <<<<>>, <<Lit("."), Lit("a")>>>>],             \* {,.a}: an empty alternative
           [t |-> "ext", k |-> "@", alts |-> <<<<>>, L1("a")>>],                   \* @(|a)
           [t |-> "ext", k |-> "@", alts |-> <<L1("a"), L1(".")>>], [t |-> "ext", k |-> "?", alts |-> <<L1("a")>>],
           [t |-> "ext", k |-> "+", alts |-> <<L1("a")>>], [t |-> "ext", k |-> "*", alts |-> <<L1("a"), L1("-")>>]}
U == StringsUpTo(Alphabet, MaxLen)
VARIABLES g, ci
Init == g = <<>> /\ ci = FALSE
Extend == /\ Len(g) < MaxTokens /\ \E tk \in Tokens : g' = Append(g, tk) /\ UNCHANGED ci
Flip == WithCI /\ ~ci /\ ci' = TRUE /\ UNCHANGED g
Next == Extend \/ Flip
Spec == Init /\ [][Next]_<<g, ci>>
Str(s) == s
Emit == PrintT(<<"VEC", ToJson([glob |-> g, ci |-> ci, matching |-> Matching(g, U, ci), ancestors |-> Ancestors(g, U, ci)])>>)
=============================================================================
