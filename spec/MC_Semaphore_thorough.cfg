CONSTANTS
  N = 4
  MaxSpurious = 2
  MaxPairs = 2
  PermitSet = {0, 1, 2}
SPECIFICATION Spec
INVARIANTS TypeOK Safety Restored WaitersAreWaiting NoLostWakeupState
PROPERTIES NoLostWakeup Termination
CHECK_DEADLOCK FALSE
