SPECIFICATION MCSpec
CONSTANTS
  NP = 3
  Lens = {4, 7}
  PLen = 4
  PMin = 2
  SLen = 2
  TLen = 6
  Kinds = {"over", "under"}
  Rfs = {1, 2}
  Isos = {TRUE}
  Skips = {FALSE, TRUE}
  Bads = {{}}
  Longs = {FALSE}
  RootSet = {0, 1, 2}
  Transforms = {"none"}
INVARIANTS MCTypeOK MCSound MCSoundSkip MCComplete MCCompleteSkip MCNeverSplit MCBadAlone MCOthersUnaffected MCFilterHonoured
CHECK_DEADLOCK FALSE
