------------------------------ MODULE ReportFmt ------------------------------
(* C10: the default text report as a sequence of lines and the reader of src/report.rs as the state      *)
(* machine it implements: 7 header lines, then per group a header line `hash, len B (..) * count:` and     *)
(* `count` path lines.  A line is abstracted to [kind, id, full]: `full` = it ends with its line           *)
(* terminator.  The input may be cut anywhere: after a complete line, or inside a line (then the last      *)
(* line is not `full`).  StrictEol = TRUE models a reader that accepts a path line only if it is           *)
(* terminated (the repaired reader); FALSE the pinned one, which takes whatever is left as the path.       *)
EXTENDS Integers, Sequences, FiniteSets, TLC
CONSTANTS NGroups, NPaths, StrictEol

Lines == [k \in 1..7 |-> [kind |-> "hdr", g |-> 0, p |-> k, full |-> TRUE]] \o
         [i \in 1..(NGroups * (NPaths + 1)) |->
             LET g == ((i - 1) \div (NPaths + 1)) + 1  j == (i - 1) % (NPaths + 1)
             IN IF j = 0 THEN [kind |-> "ghdr", g |-> g, p |-> 0, full |-> TRUE] ELSE [kind |-> "path", g |-> g, p |-> j, full |-> TRUE]]

VARIABLES input, pos, state, delivered, cur, error, done
vars == <<input, pos, state, delivered, cur, error, done>>
\* inputs: every prefix of Lines, optionally with the last kept line cut inside
Inputs == {SubSeq(Lines, 1, n) : n \in 0..Len(Lines)} \cup
          {[i \in 1..n |-> IF i = n THEN [Lines[i] EXCEPT !.full = FALSE] ELSE Lines[i]] : n \in 1..Len(Lines)}

Init == /\ input \in Inputs /\ pos = 1 /\ state = "header" /\ delivered = <<>> /\ cur = <<>> /\ error = FALSE /\ done = FALSE
Eof == pos > Len(input)
L == input[pos]

\* a cut header / group-header line no longer matches its regular expression
ReadHeader == /\ state = "header" /\ ~done
              /\ IF Eof \/ ~L.full \/ L.kind # "hdr" THEN error' = TRUE /\ done' = TRUE /\ UNCHANGED <<pos, state>>
                 ELSE /\ pos' = pos + 1 /\ state' = (IF L.p = 7 THEN "group" ELSE "header") /\ UNCHANGED <<error, done>>
              /\ UNCHANGED <<input, delivered, cur>>
ReadGroupHeader == /\ state = "group" /\ ~done
                   /\ IF Eof THEN done' = TRUE /\ UNCHANGED <<pos, state, error>>
                      ELSE IF ~L.full \/ L.kind # "ghdr" THEN error' = TRUE /\ done' = TRUE /\ UNCHANGED <<pos, state>>
                      ELSE pos' = pos + 1 /\ state' = "paths" /\ UNCHANGED <<error, done>>
                   /\ cur' = <<>> /\ UNCHANGED <<input, delivered>>
ReadPath == /\ state = "paths" /\ ~done
            /\ IF Eof \/ L.kind # "path" \/ (StrictEol /\ ~L.full)
               THEN error' = TRUE /\ done' = TRUE /\ UNCHANGED <<pos, state, delivered, cur>>
               ELSE /\ pos' = pos + 1
                    /\ IF Len(cur) + 1 = NPaths
                       THEN delivered' = Append(delivered, Append(cur, L)) /\ cur' = <<>> /\ state' = "group"
                       ELSE cur' = Append(cur, L) /\ UNCHANGED <<delivered, state>>
                    /\ UNCHANGED <<error, done>>
            /\ UNCHANGED input
Next == ReadHeader \/ ReadGroupHeader \/ ReadPath
Spec == Init /\ [][Next]_vars

\* every delivered group is a complete group of the original report, with exactly its paths, in order
DeliveredAreOriginal == \A k \in 1..Len(delivered) : \A j \in 1..NPaths :
                           delivered[k][j].full /\ delivered[k][j].g = k /\ delivered[k][j].p = j
\* a report cut inside a group is rejected
Complete == Len(input) = Len(Lines) /\ \A i \in 1..Len(input) : input[i].full
\* (a cut exactly between two groups, or right after the header, leaves a well-formed shorter report)
AtGroupBoundary == Len(input) >= 7 /\ (Len(input) - 7) % (NPaths + 1) = 0 /\ input[Len(input)].full
CutIsRejected == (done /\ ~Complete /\ Len(input) > 0) => (error \/ AtGroupBoundary)
RoundTrip == (done /\ Complete) => (~error /\ Len(delivered) = NGroups)
=============================================================================
