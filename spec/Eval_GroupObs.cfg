INIT Init
NEXT Next
