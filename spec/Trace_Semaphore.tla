--------------------------- MODULE Trace_Semaphore ---------------------------
(* Validation of traces recorded from the REAL semaphore (harness/src/sem.rs) against             *)
(* Semaphore.tla.  A trace file holds many runs, each starting with a Reset event.                 *)
(*                                                                                                *)
(*  - hook events (AcqEnter, AcqSleep, AcqWake, AcqDone, RelStart, RelMid, RelEnd) are bound to    *)
(*    the actions of the specification, with the counter value logged under the mutex;            *)
(*    RelInc (lock; count+1; unlock) and RelNotify (notify_one) have no hook inside and are        *)
(*    unlogged internal steps;                                                                     *)
(*  - observer events (Acquired, Releasing, Posting, End, Probe) come from the harness and do not  *)
(*    depend on the hooks: they carry the property itself (holders <= permits, every thread        *)
(*    finishes, permits restored).                                                                 *)
(* Mode "full": conformance + observer.  Mode "obs": observer only (hook events are skipped), used *)
(* to decide the property for a run whose hook events the specification cannot explain.            *)
EXTENDS Semaphore, Json, IOUtils, TLC

CONSTANT Mode

Rec == ndJsonDeserialize(IOEnv.TRACE)

VARIABLES l,          \* next line of Rec
          oHolders,   \* observer: threads that returned from acquire and have not started a release
          oPosts      \* observer: releases without a guard

tvars == <<vars, l, oHolders, oPosts>>
specvars == vars

Has(r, f) == f \in DOMAIN r
Pad(p) == [t \in Threads |-> IF t <= Len(p) THEN p[t] ELSE <<>>]

TInit == /\ TLCSet(1, 1) /\ TLCSet(2, 0)
         /\ l = 1 /\ oHolders = 0 /\ oPosts = 0
         /\ InitWith([t \in Threads |-> <<>>], 0)

IsEv(e) == l <= Len(Rec) /\ Rec[l].ev = e /\ l' = l + 1
R == Rec[l]
Full == Mode = "full"

TReset == /\ IsEv("Reset")
          /\ prog' = Pad(R.prog) /\ permits' = R.permits /\ count' = R.permits
          /\ mutex' = None /\ waitSet' = {} /\ woken' = {}
          /\ pc' = [t \in Threads |-> "idle"] /\ ip' = [t \in Threads |-> 1]
          /\ held' = [t \in Threads |-> 0] /\ pool' = 0 /\ posts' = 0 /\ spur' = 0
          /\ oHolders' = 0 /\ oPosts' = 0

Obs0 == UNCHANGED <<oHolders, oPosts>>

\* a hook event: in mode "obs" it is skipped
Hook(e, A) == /\ IsEv(e) /\ Obs0
              /\ IF Full THEN A ELSE UNCHANGED specvars

TAcqEnter == Hook("AcqEnter", AcqEnter(R.t))
TAcqSleep == Hook("AcqSleep", (AcqFirstSleep(R.t) \/ AcqReSleep(R.t)) /\ count = R.count)
TAcqWake  == Hook("AcqWake", AcqWake(R.t) /\ count = R.count)
TAcqDone  == Hook("AcqDone", (AcqFirstTake(R.t) \/ AcqReTake(R.t)) /\ count' = R.count)
TRelStart == Hook("RelStart", RelStart(R.t))
TRelMid   == Hook("RelMid", RelMid(R.t))
TRelEnd   == Hook("RelEnd", RelEnd(R.t))
THand     == Hook("Hand", Hand(R.t))
\* notify_all issued by the harness (every waiter is woken spuriously): only a marker, because the
\* wake-ups it causes are instances of the internal step TSpurOne below
TSpur     == Hook("Spur", UNCHANGED specvars)

\* unlogged internal steps of the specification: the increment and the notify of a release, and
\* a spurious wake-up of one waiter (allowed at any time by the condition variable's contract)
SpurOne == /\ waitSet # {}
           /\ \E w \in waitSet : waitSet' = waitSet \ {w} /\ woken' = woken \cup {w}
           /\ spur' = spur + 1
           /\ UNCHANGED <<prog, permits, count, mutex, pc, ip, held, pool, posts>>
TInner == /\ Full /\ l <= Len(Rec)
          /\ \/ \E t \in Threads : RelInc(t) \/ RelNotify(t)
             \/ SpurOne
          /\ UNCHANGED <<l, oHolders, oPosts>>

\* observer events
TAcquired  == IsEv("Acquired")  /\ oHolders' = oHolders + 1 /\ UNCHANGED <<oPosts, specvars>>
TReleasing == IsEv("Releasing") /\ oHolders' = oHolders - 1 /\ UNCHANGED <<oPosts, specvars>>
TPosting   == IsEv("Posting")   /\ oPosts' = oPosts + 1 /\ UNCHANGED <<oHolders, specvars>>

\* End of a run, asserted by the harness after a generous timeout.  It is accepted only if the
\* state is one in which the specification cannot move either: all done (closed systems).
TEnd == /\ IsEv("End") /\ Obs0 /\ UNCHANGED specvars
        /\ R.stuck = <<>>
        /\ Full => (AllDone /\ woken = {} /\ waitSet = {})

\* Restoration probe: the harness acquired `got` more permits until it blocked.
TProbe == /\ IsEv("Probe") /\ Obs0 /\ UNCHANGED specvars
          /\ R.got = permits + oPosts - oHolders
          /\ Full => R.got = count

TNext == \/ TReset \/ TAcqEnter \/ TAcqSleep \/ TAcqWake \/ TAcqDone \/ TRelStart \/ TRelMid \/ TRelEnd
         \/ THand \/ TSpur \/ TInner \/ TAcquired \/ TReleasing \/ TPosting \/ TEnd \/ TProbe

TraceSpec == TInit /\ [][TNext]_tvars

\* ---- the property on observed values (hook independent) ----
ObsSafety == permits >= 0 => oHolders <= permits + oPosts
\* ---- the specification's own invariants, evaluated on every state of the matched behaviour ----
SpecSafety == Full => Safety /\ WaitersAreWaiting

\* Invariants are evaluated in every state through the CONSTRAINT (a violation is recorded in register 2
\* and printed once) instead of INVARIANT, because TLC would print a counterexample of tens of
\* thousands of states for a batched trace file.
Fail(name) == IF TLCGet(2) = 0 THEN TLCSet(2, l) /\ PrintT(<<"INVFAIL", name, l - 1>>) ELSE TRUE
Track == /\ TLCSet(1, IF TLCGet(1) > l THEN TLCGet(1) ELSE l)
         /\ (ObsSafety \/ Fail("ObsSafety"))
         /\ (SpecSafety \/ Fail("SpecSafety"))
Accepted == /\ TLCGet(2) = 0
            /\ \/ TLCGet(1) = Len(Rec) + 1
               \/ /\ PrintT(<<"REJECTED", TLCGet(1), ToJson(Rec[TLCGet(1)])>>)
                  /\ FALSE
=============================================================================
