------------------------------ MODULE Transform ------------------------------
(* C07: the life cycle of the handles `fclones group --transform` creates for one input file         *)
(* (src/transform.rs): how the file is passed to the program (stdin | $IN = the original | $IN = a     *)
(* temporary copy), how the output is read (stdout | named pipe $OUT | --in-place: the $IN file), and   *)
(* what each handle deletes when it is dropped.  The scanned file must be exactly as it was at every    *)
(* step, temporaries live only in the temporary directory and are gone at the end - unless the user's    *)
(* program itself writes to $IN under --no-copy.                                                        *)
EXTENDS Integers, FiniteSets, TLC

CONSTANT FixedInPlaceDrop     \* TRUE: dropping an in-place output handle deletes nothing (the repaired code);
                              \* FALSE: it deletes the $IN path (the pinned tree)
VARIABLES hasIn, hasOut, inPlace, noCopy, cmd,   \* configuration; cmd: "reads" | "ignores" | "fails" | "writesIN"
          orig,      \* content of the scanned file: "A" | "changed" | "gone"
          tmpIn, pipe,   \* temporary copy / named pipe exist
          pc
vars == <<hasIn, hasOut, inPlace, noCopy, cmd, orig, tmpIn, pipe, pc>>

Valid == /\ (inPlace => hasIn /\ ~hasOut) /\ (noCopy => hasIn)
Init == /\ hasIn \in BOOLEAN /\ hasOut \in BOOLEAN /\ inPlace \in BOOLEAN /\ noCopy \in BOOLEAN
        /\ cmd \in {"reads", "ignores", "fails", "writesIN"} /\ Valid
        /\ (cmd = "writesIN" => hasIn)
        /\ orig = "A" /\ tmpIn = FALSE /\ pipe = FALSE /\ pc = "prepare"
Copied == hasIn /\ ~noCopy
InputIsOriginal == hasIn /\ noCopy

Prepare == /\ pc = "prepare" /\ tmpIn' = Copied /\ pipe' = hasOut /\ pc' = "run"
           /\ UNCHANGED <<hasIn, hasOut, inPlace, noCopy, cmd, orig>>
Run == /\ pc = "run" /\ pc' = "drop_output"
       /\ orig' = (IF cmd = "writesIN" /\ InputIsOriginal THEN "changed" ELSE orig)
       /\ UNCHANGED <<hasIn, hasOut, inPlace, noCopy, cmd, tmpIn, pipe>>
\* Output handle dropped: Named -> remove the pipe; InPlace -> (pinned tree) remove the $IN path
DropOutput == /\ pc = "drop_output" /\ pc' = "drop_input"
              /\ pipe' = FALSE
              /\ IF inPlace /\ ~FixedInPlaceDrop
                 THEN IF Copied THEN tmpIn' = FALSE /\ orig' = orig ELSE orig' = "gone" /\ tmpIn' = tmpIn
                 ELSE UNCHANGED <<orig, tmpIn>>
              /\ UNCHANGED <<hasIn, hasOut, inPlace, noCopy, cmd>>
DropInput == /\ pc = "drop_input" /\ pc' = "done" /\ tmpIn' = FALSE
             /\ UNCHANGED <<hasIn, hasOut, inPlace, noCopy, cmd, orig, pipe>>
Next == Prepare \/ Run \/ DropOutput \/ DropInput
Spec == Init /\ [][Next]_vars

Unmodified == (orig = "A") \/ (cmd = "writesIN" /\ InputIsOriginal /\ orig = "changed")
TempsGone == pc = "done" => ~tmpIn /\ ~pipe
=============================================================================
