CONSTANTS
  Inodes = {1, 2}
  Tables = {"t1", "t2"}
  MaxSteps = 4
SPECIFICATION Spec
INVARIANT Sound
CHECK_DEADLOCK FALSE
