----------------------------- MODULE Trace_Cache -----------------------------
(* Validation of the cache events of real `group --cache` runs over a history of edits (C12).              *)
(*   Reset                         a new history: the cache is empty                                        *)
(*   Run    table, files           a cached run starts: table = (hash function, transform) the run uses,   *)
(*                                 files = the tree as the driver sees it now: per path its identity, its    *)
(*                                 modification time (ms, rebased), length and content class                 *)
(*   CacheStore   p, pos, len, hash     hook event: the hash of chunk (pos, len) of path p goes to the cache   *)
(*   CacheLookup  p, pos, len, hit      hook event: the cache was asked for that chunk                        *)
(* The state is Cache.tla's table of entries, keyed by (table, identity, chunk) and remembering the          *)
(* modification time, length and - what the code cannot see - the content class at the time of the store.    *)
(* A hit must be explained by an entry (else the line is rejected); ValidHit says the entry's time and       *)
(* length are the file's current ones (the mechanism), Sound says its content class is the current one       *)
(* (the property: what the cache serves is what an uncached run would compute now).  A miss must not have    *)
(* a valid entry.                                                                                           *)
EXTENDS Integers, Sequences, FiniteSets, TLC, Json, IOUtils
Rec == ndJsonDeserialize(IOEnv.TRACE)
VARIABLES l, table, files, store, last
vars == <<l, table, files, store, last>>
R == Rec[l]
IsEv(e) == l <= Len(Rec) /\ Rec[l].ev = e /\ l' = l + 1
RangeOf(s) == {s[i] : i \in 1..Len(s)}
Known(p) == \E f \in RangeOf(files) : f.p = p
FileAt(p) == CHOOSE f \in RangeOf(files) : f.p = p
Key(p, pos, len) == <<table, FileAt(p).ino, pos, len>>
Put(f, k, v) == [x \in DOMAIN f \cup {k} |-> IF x = k THEN v ELSE f[x]]
Valid(k, f) == k \in DOMAIN store /\ store[k].mt = f.mt /\ store[k].flen = f.len
NoHit == [hit |-> FALSE, valid |-> TRUE, same |-> TRUE]

Init == TLCSet(1, 1) /\ TLCSet(2, 0) /\ l = 1 /\ table = "" /\ files = <<>> /\ store = <<>> /\ last = NoHit
TReset == IsEv("Reset") /\ table' = "" /\ files' = <<>> /\ store' = <<>> /\ last' = NoHit
TRun == IsEv("Run") /\ table' = R.table /\ files' = R.files /\ last' = NoHit /\ UNCHANGED store
TStore == /\ IsEv("CacheStore") /\ Known(R.p)
          /\ LET f == FileAt(R.p) IN store' = Put(store, Key(R.p, R.pos, R.len), [mt |-> f.mt, flen |-> f.len, hash |-> R.hash, cls |-> f.cls])
          /\ last' = NoHit /\ UNCHANGED <<table, files>>
TLookup == /\ IsEv("CacheLookup") /\ Known(R.p)
           /\ LET f == FileAt(R.p)  k == Key(R.p, R.pos, R.len) IN
              IF R.hit THEN k \in DOMAIN store /\ last' = [hit |-> TRUE, valid |-> Valid(k, f), same |-> store[k].cls = f.cls]
              ELSE ~Valid(k, f) /\ last' = NoHit
           /\ UNCHANGED <<table, files, store>>
Next == TReset \/ TRun \/ TStore \/ TLookup
TraceSpec == Init /\ [][Next]_vars

ValidHit == last.valid
Sound == last.same
Fail(name) == IF TLCGet(2) = 0 THEN TLCSet(2, l) /\ PrintT(<<"INVFAIL", name, l - 1>>) ELSE TRUE
Track == /\ TLCSet(1, IF TLCGet(1) > l THEN TLCGet(1) ELSE l)
         /\ (Sound \/ Fail("Sound")) /\ (ValidHit \/ Fail("ValidHit"))
Accepted == /\ TLCGet(2) = 0
            /\ \/ TLCGet(1) = Len(Rec) + 1
               \/ PrintT(<<"REJECTED", TLCGet(1), ToJson(Rec[TLCGet(1)])>>) /\ FALSE
=============================================================================
