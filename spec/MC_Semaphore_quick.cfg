CONSTANTS
  N = 3
  MaxSpurious = 1
  MaxPairs = 2
  PermitSet = {0, 1, 2}
SPECIFICATION Spec
INVARIANTS TypeOK Safety Restored WaitersAreWaiting NoLostWakeupState
PROPERTIES NoLostWakeup Termination
CHECK_DEADLOCK FALSE
