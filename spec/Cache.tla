------------------------------- MODULE Cache -------------------------------
(* C12: the persistent hash cache (src/cache.rs, src/hasher.rs).  Entries are keyed by              *)
(* (file id, chunk position, chunk length) inside a table selected by (hash function, transform);     *)
(* an entry is valid for a file iff its recorded modification time (ms) and file length equal the      *)
(* current ones.  Between runs the user edits the tree; the property's precondition is that every      *)
(* content change also changes the modification time or the length.  A run may be interrupted after    *)
(* any number of stores.  Soundness: whatever a run finds valid in the cache is the hash an uncached   *)
(* run would compute now, hence cached and uncached runs report the same groups.                       *)
EXTENDS Integers, FiniteSets, Sequences, TLC

CONSTANTS Inodes, Tables, MaxSteps
\* content = <<prefix block, rest block>>; chunks: "p" = prefix only, "f" = whole file
Blocks == {1, 2}
Chunks == {"p", "f"}
Hash(c, ch) == IF ch = "p" THEN <<c[1]>> ELSE c
NoEntry == [mt |-> -1, len |-> -1, h |-> <<0>>]

VARIABLES file,    \* [Inodes -> [live, c, len, mt]]  (the file currently owning the inode)
          cache,   \* [Tables -> [Inodes \X Chunks -> [mt, len, h] (NoEntry: mt = -1)]]
          clock, steps,
          seen     \* [Inodes -> set of <<mt, len, c>> the inode has had]: the precondition of the property is read as
                   \* 'the content of a file is a function of its (modification time, length)' over the history
vars == <<file, cache, clock, steps, seen>>

Init == /\ file = [i \in Inodes |-> [live |-> TRUE, c |-> <<1, 1>>, len |-> 1, mt |-> 0]]
        /\ cache = [t \in Tables |-> [k \in Inodes \X Chunks |-> NoEntry]]
        /\ clock = 1 /\ steps = 0
        /\ seen = [i \in Inodes |-> {<<0, 1, <<1, 1>>>>}]

Step == steps < MaxSteps /\ steps' = steps + 1
\* the edit of inode i to (mt, len, c) respects the precondition and is recorded
Pre(i, mt, len, c) == /\ \A x \in seen[i] : (x[1] = mt /\ x[2] = len) => x[3] = c
                      /\ seen' = [seen EXCEPT ![i] = @ \cup {<<mt, len, c>>}]
\* ordinary edits: new content => new mtime (clock is strictly increasing, ms resolution) or new length
Modify(i) == /\ Step /\ file[i].live
             /\ \E c \in Blocks \X Blocks, l \in {1, 2} :
                   /\ Pre(i, clock, l, c)
                   /\ file' = [file EXCEPT ![i] = [live |-> TRUE, c |-> c, len |-> l, mt |-> clock]]
             /\ clock' = clock + 1 /\ UNCHANGED cache
\* the content changes, the mtime is preserved (or set to any older value) but the length changes
ModifyKeepMtime(i) == /\ Step /\ file[i].live
                      /\ \E c \in Blocks \X Blocks : Pre(i, file[i].mt, 3 - file[i].len, c) /\ file' = [file EXCEPT ![i] = [@ EXCEPT !.c = c, !.len = 3 - @]]
                      /\ UNCHANGED <<clock, cache>>
\* mtime moves (possibly backwards), content may change: still a change of mtime
SetOlderMtime(i) == /\ Step /\ file[i].live /\ file[i].mt > 0
                    /\ \E c \in Blocks \X Blocks : Pre(i, file[i].mt - 1, file[i].len, c) /\ file' = [file EXCEPT ![i] = [@ EXCEPT !.c = c, !.mt = @ - 1]]
                    /\ clock' = clock + 1 /\ UNCHANGED cache
\* delete and recreate: the new file may reuse the inode number
Recreate(i) == /\ Step
               /\ \E c \in Blocks \X Blocks, l \in {1, 2} : Pre(i, clock, l, c) /\ file' = [file EXCEPT ![i] = [live |-> TRUE, c |-> c, len |-> l, mt |-> clock]]
               /\ clock' = clock + 1 /\ UNCHANGED cache
Delete(i) == Step /\ file[i].live /\ file' = [file EXCEPT ![i].live = FALSE] /\ UNCHANGED <<clock, cache, seen>>
\* renames, moves, new hard links do not change the inode: no-ops for the cache

Valid(t, i, ch) == cache[t][<<i, ch>>].mt = file[i].mt /\ cache[t][<<i, ch>>].len = file[i].len
\* a run with table t: for any subset of the live files and chunks it stores what it computes (an interrupted run = a smaller subset)
Run(t) == /\ Step
          /\ \E S \in SUBSET (Inodes \X Chunks) :
                cache' = [cache EXCEPT ![t] = [k \in Inodes \X Chunks |->
                             IF k \in S /\ file[k[1]].live /\ ~Valid(t, k[1], k[2])
                             THEN [mt |-> file[k[1]].mt, len |-> file[k[1]].len, h |-> Hash(file[k[1]].c, k[2])]
                             ELSE cache[t][k]]]
          /\ clock' = clock + 1 /\ UNCHANGED <<file, seen>>

Next == \/ \E i \in Inodes : Modify(i) \/ ModifyKeepMtime(i) \/ SetOlderMtime(i) \/ Recreate(i) \/ Delete(i)
        \/ \E t \in Tables : Run(t)
Spec == Init /\ [][Next]_vars

\* what a run finds valid in the cache is what it would compute
Sound == \A t \in Tables, i \in Inodes, ch \in Chunks : (file[i].live /\ Valid(t, i, ch)) => cache[t][<<i, ch>>].h = Hash(file[i].c, ch)
=============================================================================
