------------------------------ MODULE Semaphore ------------------------------
(* The counting semaphore of fclones (src/semaphore.rs): Mutex<isize> + Condvar.                 *)
(*                                                                                              *)
(* One action per critical section / hook point of the code:                                    *)
(*   acquire:  AcqEnter ; lock ; while count <= 0 { AcqSleep ; cvar.wait ; AcqWake } ;           *)
(*             count -= 1 ; AcqDone ; unlock                                                    *)
(*   release:  RelStart ; { lock ; count += 1 ; unlock } ; RelMid ; notify_one ; RelEnd         *)
(* cvar.wait atomically unlocks the mutex and joins the wait set; a notified (or spuriously     *)
(* woken) thread must re-take the mutex before it continues (AcqWake).  notify_one wakes a      *)
(* nondeterministically chosen member of the wait set, or nobody if it is empty.                *)
(*                                                                                              *)
(* Thread programs are sequences of operations:                                                 *)
(*   "A" acquire (the thread then holds one more guard)      "R" release one of its own guards  *)
(*   "H" hand one of its guards over to the shared pool       "X" take a guard from the pool and *)
(*   "P" release without holding a guard (condition-variable     release it (guard dropped on    *)
(*       use of the semaphore, initial permits 0)                another thread)                 *)
EXTENDS Integers, Sequences, FiniteSets

CONSTANTS N,            \* threads are 1..N
          MaxSpurious   \* bound on spurious wake-ups

Threads == 1..N
None == 0

VARIABLES prog,     \* [Threads -> Seq(Op)]   the program of each thread
          permits,  \* initial count
          count,    \* the semaphore's counter (protected by the mutex)
          mutex,    \* holder of the mutex between AcqWake and the following AcqSleep/AcqDone, or None
          waitSet,  \* threads blocked in cvar.wait, not yet notified
          woken,    \* threads notified / spuriously woken, which have not re-taken the mutex yet
          pc,       \* [Threads -> control point]
          ip,       \* [Threads -> index of the current operation in prog]
          held,     \* [Threads -> number of guards held]
          pool,     \* guards handed over and not yet taken
          posts,    \* number of "P" releases started
          spur      \* spurious wake-ups so far

vars == <<prog, permits, count, mutex, waitSet, woken, pc, ip, held, pool, posts, spur>>

Op(t) == IF ip[t] <= Len(prog[t]) THEN prog[t][ip[t]] ELSE "-"
Done(t) == pc[t] = "idle" /\ ip[t] > Len(prog[t])
AllDone == \A t \in Threads : Done(t)

TypeOK == /\ count \in Int /\ permits \in Int
          /\ mutex \in Threads \cup {None}
          /\ waitSet \subseteq Threads /\ woken \subseteq Threads /\ waitSet \cap woken = {}
          /\ pc \in [Threads -> {"idle", "a_lock", "a_wait", "a_check", "r_lock", "r_mid", "r_notify", "r_end"}]
          /\ \A t \in Threads : held[t] \in Nat
          /\ pool \in Nat /\ posts \in Nat /\ spur \in Nat

InitWith(p, k) ==
    /\ prog = p /\ permits = k /\ count = k /\ mutex = None /\ waitSet = {} /\ woken = {}
    /\ pc = [t \in Threads |-> "idle"] /\ ip = [t \in Threads |-> 1]
    /\ held = [t \in Threads |-> 0] /\ pool = 0 /\ posts = 0 /\ spur = 0

Advance(t) == ip' = [ip EXCEPT ![t] = @ + 1]

(* ---------------------------------- acquire ---------------------------------- *)
AcqEnter(t) == /\ pc[t] = "idle" /\ Op(t) = "A"
               /\ pc' = [pc EXCEPT ![t] = "a_lock"]
               /\ UNCHANGED <<prog, permits, count, mutex, waitSet, woken, ip, held, pool, posts, spur>>

\* lock; count <= 0: emit AcqSleep, cvar.wait (unlock + enqueue atomically)
AcqFirstSleep(t) == /\ pc[t] = "a_lock" /\ mutex = None /\ count <= 0
                    /\ waitSet' = waitSet \cup {t}
                    /\ pc' = [pc EXCEPT ![t] = "a_wait"]
                    /\ UNCHANGED <<prog, permits, count, mutex, woken, ip, held, pool, posts, spur>>

\* lock; count > 0: decrement, emit AcqDone, unlock
AcqFirstTake(t) == /\ pc[t] = "a_lock" /\ mutex = None /\ count > 0
                   /\ count' = count - 1
                   /\ held' = [held EXCEPT ![t] = @ + 1]
                   /\ pc' = [pc EXCEPT ![t] = "idle"] /\ Advance(t)
                   /\ UNCHANGED <<prog, permits, mutex, waitSet, woken, pool, posts, spur>>

\* woken thread re-takes the mutex, emits AcqWake
AcqWake(t) == /\ pc[t] = "a_wait" /\ t \in woken /\ mutex = None
              /\ woken' = woken \ {t} /\ mutex' = t
              /\ pc' = [pc EXCEPT ![t] = "a_check"]
              /\ UNCHANGED <<prog, permits, count, waitSet, ip, held, pool, posts, spur>>

AcqReSleep(t) == /\ pc[t] = "a_check" /\ mutex = t /\ count <= 0
                 /\ waitSet' = waitSet \cup {t} /\ mutex' = None
                 /\ pc' = [pc EXCEPT ![t] = "a_wait"]
                 /\ UNCHANGED <<prog, permits, count, woken, ip, held, pool, posts, spur>>

AcqReTake(t) == /\ pc[t] = "a_check" /\ mutex = t /\ count > 0
                /\ count' = count - 1 /\ mutex' = None
                /\ held' = [held EXCEPT ![t] = @ + 1]
                /\ pc' = [pc EXCEPT ![t] = "idle"] /\ Advance(t)
                /\ UNCHANGED <<prog, permits, waitSet, woken, pool, posts, spur>>

(* ---------------------------------- release ---------------------------------- *)
RelStart(t) == /\ pc[t] = "idle"
               /\ \/ Op(t) = "R" /\ held[t] > 0 /\ held' = [held EXCEPT ![t] = @ - 1] /\ UNCHANGED <<pool, posts>>
                  \/ Op(t) = "X" /\ pool > 0 /\ pool' = pool - 1 /\ UNCHANGED <<held, posts>>
                  \/ Op(t) = "P" /\ posts' = posts + 1 /\ UNCHANGED <<held, pool>>
               /\ pc' = [pc EXCEPT ![t] = "r_lock"]
               /\ UNCHANGED <<prog, permits, count, mutex, waitSet, woken, ip, spur>>

\* lock; count += 1; unlock   (no hook inside: an unlogged step in trace validation)
RelInc(t) == /\ pc[t] = "r_lock" /\ mutex = None
             /\ count' = count + 1
             /\ pc' = [pc EXCEPT ![t] = "r_mid"]
             /\ UNCHANGED <<prog, permits, mutex, waitSet, woken, ip, held, pool, posts, spur>>

RelMid(t) == /\ pc[t] = "r_mid"
             /\ pc' = [pc EXCEPT ![t] = "r_notify"]
             /\ UNCHANGED <<prog, permits, count, mutex, waitSet, woken, ip, held, pool, posts, spur>>

\* notify_one
RelNotify(t) == /\ pc[t] = "r_notify"
                /\ \/ waitSet = {} /\ UNCHANGED <<waitSet, woken>>
                   \/ \E w \in waitSet : waitSet' = waitSet \ {w} /\ woken' = woken \cup {w}
                /\ pc' = [pc EXCEPT ![t] = "r_end"]
                /\ UNCHANGED <<prog, permits, count, mutex, ip, held, pool, posts, spur>>

RelEnd(t) == /\ pc[t] = "r_end"
             /\ pc' = [pc EXCEPT ![t] = "idle"] /\ Advance(t)
             /\ UNCHANGED <<prog, permits, count, mutex, waitSet, woken, held, pool, posts, spur>>

(* ------------------------ guard hand-over, spurious wake-ups ------------------------ *)
Hand(t) == /\ pc[t] = "idle" /\ Op(t) = "H" /\ held[t] > 0
           /\ held' = [held EXCEPT ![t] = @ - 1] /\ pool' = pool + 1 /\ Advance(t)
           /\ UNCHANGED <<prog, permits, count, mutex, waitSet, woken, pc, posts, spur>>

Spurious == /\ spur < MaxSpurious /\ waitSet # {}
            /\ \E w \in waitSet : waitSet' = waitSet \ {w} /\ woken' = woken \cup {w}
            /\ spur' = spur + 1
            /\ UNCHANGED <<prog, permits, count, mutex, pc, ip, held, pool, posts>>

ThreadStep(t) == \/ AcqEnter(t) \/ AcqFirstSleep(t) \/ AcqFirstTake(t) \/ AcqWake(t) \/ AcqReSleep(t) \/ AcqReTake(t)
                 \/ RelStart(t) \/ RelInc(t) \/ RelMid(t) \/ RelNotify(t) \/ RelEnd(t) \/ Hand(t)

Next == (\E t \in Threads : ThreadStep(t)) \/ Spurious

(* ---------------------------------- properties ---------------------------------- *)
RECURSIVE SumHeld(_)
SumHeld(S) == IF S = {} THEN 0 ELSE LET t == CHOOSE x \in S : TRUE IN held[t] + SumHeld(S \ {t})
Holders == SumHeld(Threads) + pool
InFlight == Cardinality({t \in Threads : pc[t] = "r_lock"})

\* Permit accounting: never more holders than permits (+ explicit posts); the counter never goes
\* negative when it started non-negative.
Safety == /\ count + Holders + InFlight = permits + posts
          /\ (permits >= 0 => count >= 0)
          /\ (permits >= 0 => Holders <= permits + posts)

\* After all guards are dropped the full permit count is available again.
Restored == AllDone => /\ count = permits + posts - Holders
                       /\ waitSet = {} /\ woken = {} /\ mutex = None

\* A thread never sleeps while holding the mutex; a thread in the wait set is really waiting.
WaitersAreWaiting == \A t \in waitSet \cup woken : pc[t] = "a_wait"

\* No lost wake-up (state form, used on quiescent states): if nobody can move any more, nobody waits
\* while a permit is available.
Quiescent == ~ ENABLED (\E t \in Threads : ThreadStep(t))
NoLostWakeupState == Quiescent => ~ (\E t \in Threads : pc[t] = "a_wait" /\ count > 0)

Fairness == \A t \in Threads : WF_vars(ThreadStep(t))
\* temporal form: every waiter eventually stops waiting, every run of a closed system finishes
NoLostWakeup == \A t \in Threads : (pc[t] = "a_wait") ~> (pc[t] # "a_wait")
Termination == <>[]AllDone
=============================================================================
