CONSTANTS
  MaxTokens = 2
  MaxLen = 4
  WithCI = TRUE
SPECIFICATION Spec
INVARIANT Emit
CHECK_DEADLOCK FALSE
