SPECIFICATION MCSpec
CONSTANTS
  NP = 4
  Lens = {2, 3, 4, 5, 6, 7, 8}
  PLen = 4
  PMin = 2
  SLen = 2
  TLen = 6
  Kinds = {"over", "under"}
  Rfs = {0, 1, 2, 3}
  Isos = {FALSE}
  Skips = {FALSE, TRUE}
  Bads = {{}, {1}, {2}, {1, 2}, {2, 3}}
  Longs = {FALSE, TRUE}
  RootSet = {0}
  Transforms = {"none", "keep", "head", "tail"}
INVARIANTS MCTypeOK MCSound MCSoundSkip MCComplete MCCompleteSkip MCNeverSplit MCBadAlone MCOthersUnaffected MCFilterHonoured
CHECK_DEADLOCK FALSE
