SPECIFICATION MCSpec
CONSTANTS
  NP = 3
  Lens = {3, 4, 5, 6, 7}
  PLen = 4
  PMin = 2
  SLen = 2
  TLen = 6
  Kinds = {"over", "under"}
  Rfs = {1, 2}
  Isos = {FALSE}
  Skips = {FALSE}
  Bads = {{}, {1}, {2}}
INVARIANTS MCTypeOK MCSound MCSoundSkip MCComplete MCNeverSplit MCBadAlone MCOthersUnaffected MCFilterHonouredNoSkip
CHECK_DEADLOCK FALSE
