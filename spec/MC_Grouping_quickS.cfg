SPECIFICATION MCSpec
CONSTANTS
  NP = 3
  Lens = {3, 4, 5, 6, 7}
  PLen = 4
  PMin = 2
  SLen = 2
  TLen = 6
  Kinds = {"over", "under"}
  Rfs = {1, 2}
  Isos = {FALSE}
  Skips = {FALSE, TRUE}
  Bads = {{}}
  Longs = {FALSE, TRUE}
  RootSet = {0}
  Transforms = {"none"}
INVARIANTS MCTypeOK MCSound MCSoundSkip MCComplete MCCompleteSkip MCNeverSplit MCBadAlone MCOthersUnaffected MCFilterHonoured
CHECK_DEADLOCK FALSE
