------------------------------ MODULE GroupObs ------------------------------
(* What `fclones group` promises about its report (C01, C03, C06, C14), as predicates over one        *)
(* OBSERVED run: the scanned files with their attributes (from the driver's own byte-for-byte          *)
(* comparison and stat), the configuration, and the parsed report.                                    *)
(*   r.files   sequence of [p, cls, len, ino, root]   scanned files: cls = class of (length, bytes)    *)
(*             (of the transform output when --transform), len = that length, ino = identity of the    *)
(*             file the path refers to, root = index of the input root containing it                   *)
(*   r.cfg     [kind ("over"|"under"), rf, isolate, matchLinks]                                        *)
(*   r.groups  sequence of [len, paths]                       the report body                           *)
(*   r.stats   [groups, files, bytes, redundantFiles, redundantBytes, missingFiles, missingBytes]       *)
EXTENDS Partition

RangeOf(s) == {s[i] : i \in 1..Len(s)}
FileOf(r, p) == CHOOSE f \in RangeOf(r.files) : f.p = p
ScannedPaths(r) == {f.p : f \in RangeOf(r.files)}
ReportedPaths(r) == UNION {RangeOf(r.groups[g].paths) : g \in 1..Len(r.groups)}
Classes(r) == {f.cls : f \in RangeOf(r.files)}
ClassPaths(r, c) == {f.p : f \in {x \in RangeOf(r.files) : x.cls = c}}

\* replicas of a set of paths: sub-groups by isolate root, else by file identity (unless --match-links)
CaseOf(r, paths) == [files |-> [i \in 1..Len(paths) |-> [ino |-> FileOf(r, paths[i]).ino, root |-> FileOf(r, paths[i]).root]],
                     cliN |-> 0, hdrN |-> 1, cliRoots |-> FALSE, hdrIsolate |-> r.cfg.isolate, cliLinks |-> FALSE, hdrLinks |-> r.cfg.matchLinks]
Replicas(r, S) == Len(SubGroups(CaseOf(r, SetToSeq(S))))
Qualifies(r, S) == IF r.cfg.kind = "over" THEN Replicas(r, S) > r.cfg.rf ELSE Replicas(r, S) < r.cfg.rf

\* C01: only byte-identical files share a group, and the printed length is their length
GroupsIdentical(r) == \A g \in 1..Len(r.groups) : \A a, b \in RangeOf(r.groups[g].paths) :
                         /\ a \in ScannedPaths(r) /\ b \in ScannedPaths(r) => FileOf(r, a).cls = FileOf(r, b).cls
                         /\ a \in ScannedPaths(r) => r.groups[g].len = FileOf(r, a).len

\* C03: the groups are exactly the qualifying content classes; nothing twice, nothing unscanned
NoPathTwice(r) == \A g, h \in 1..Len(r.groups) : \A i \in 1..Len(r.groups[g].paths), j \in 1..Len(r.groups[h].paths) :
                     (r.groups[g].paths[i] = r.groups[h].paths[j]) => (g = h /\ i = j)
OnlyScanned(r) == ReportedPaths(r) \subseteq ScannedPaths(r)
ExpectedGroups(r) == {ClassPaths(r, c) : c \in {x \in Classes(r) : Qualifies(r, ClassPaths(r, x))}}
ExactPartition(r) == {RangeOf(r.groups[g].paths) : g \in 1..Len(r.groups)} = ExpectedGroups(r)

\* C14: header statistics equal what the body shows; groups ordered by decreasing size
RECURSIVE SumSeq(_)
SumSeq(s) == IF s = <<>> THEN 0 ELSE Head(s) + SumSeq(Tail(s))
GroupCase(r, g) == CaseOf(r, r.groups[g].paths)
RedundantOf(r, g) == IF r.cfg.kind = "under" THEN 0
                     ELSE LET sgs == SubGroups(GroupCase(r, g))  cut == Min2(Max2(r.cfg.rf, 1), Len(sgs))
                          IN SumSeq([k \in 1..(Len(sgs) - cut) |-> Len(sgs[cut + k])])
MissingOf(r, g) == IF r.cfg.kind = "over" THEN 0 ELSE Max2(0, r.cfg.rf - Len(SubGroups(GroupCase(r, g))))
StatsMatch(r) == /\ r.stats.groups = Len(r.groups)
                 /\ r.stats.files = SumSeq([g \in 1..Len(r.groups) |-> Len(r.groups[g].paths)])
                 /\ r.stats.bytes = SumSeq([g \in 1..Len(r.groups) |-> Len(r.groups[g].paths) * r.groups[g].len])
                 /\ r.stats.redundantFiles = SumSeq([g \in 1..Len(r.groups) |-> RedundantOf(r, g)])
                 /\ r.stats.redundantBytes = SumSeq([g \in 1..Len(r.groups) |-> RedundantOf(r, g) * r.groups[g].len])
                 /\ r.stats.missingFiles = SumSeq([g \in 1..Len(r.groups) |-> MissingOf(r, g)])
                 /\ r.stats.missingBytes = SumSeq([g \in 1..Len(r.groups) |-> MissingOf(r, g) * r.groups[g].len])
SortedBySize(r) == \A g \in 1..(Len(r.groups) - 1) : r.groups[g].len >= r.groups[g + 1].len
\* paths of one isolate root stay together, roots in the order given
RootsTogether(r) == r.cfg.isolate => \A g \in 1..Len(r.groups) : \A i \in 1..(Len(r.groups[g].paths) - 1) :
                       r.groups[g].paths[i] \in ScannedPaths(r) /\ r.groups[g].paths[i + 1] \in ScannedPaths(r)
                           => FileOf(r, r.groups[g].paths[i]).root <= FileOf(r, r.groups[g].paths[i + 1]).root

Verdict(r) == [id |-> r.id, GroupsIdentical |-> GroupsIdentical(r), NoPathTwice |-> NoPathTwice(r), OnlyScanned |-> OnlyScanned(r),
               ExactPartition |-> ExactPartition(r), StatsMatch |-> StatsMatch(r), SortedBySize |-> SortedBySize(r), RootsTogether |-> RootsTogether(r)]
=============================================================================
