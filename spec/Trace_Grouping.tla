--------------------------- MODULE Trace_Grouping ---------------------------
(* Validation of real `fclones group` runs against Grouping.tla.  One run = a Reset line carrying the     *)
(* input (`inp`: per scanned path its identity, root, length and the classes of the three byte windows,    *)
(* computed by the driver from the bytes on disk; the filter configuration) followed by the StageDone      *)
(* hook events of the run, paths replaced by their index in inp.files:                                     *)
(*   paths   -> BySize   (size grouping + same-path removal)                                               *)
(*   prefix  -> End of the prefix stage        suffix -> End of the suffix stage                           *)
(*   done    -> End of the contents stage (of the single transform stage with --transform), or FinalFilter  *)
(*              with --skip-content-hash                                                                    *)
(* Begin and the hashing tasks are silent steps (the order of tasks cannot influence End, see MC_Grouping). *)
(* A line is consumed only if the candidate sets the code reports equal the ones the specification          *)
(* computes, so an accepted run is a behaviour of Grouping.tla stage by stage; the invariants of the spec  *)
(* are evaluated on every matched state.                                                                    *)
EXTENDS Grouping, Json, IOUtils
Rec == ndJsonDeserialize(IOEnv.TRACE)
VARIABLE l
tvars == <<vars, l>>
R == Rec[l]
IsEv(e) == l <= Len(Rec) /\ Rec[l].ev = e /\ l' = l + 1
Obs == {ToSet(R.groups[i]) : i \in 1..Len(R.groups)}
Sets(G) == {g.files : g \in G}
Dummy == [files |-> <<>>, cfg |-> [kind |-> "over", rf |-> 1, isolate |-> FALSE, matchLinks |-> FALSE, skipContent |-> FALSE, transform |-> FALSE, P |-> 1, T |-> 1], bad |-> {}]

TInit == TLCSet(1, 1) /\ TLCSet(2, 0) /\ l = 1 /\ inp = Dummy /\ stage = "done" /\ phase = "begin" /\ groups = {} /\ todo = {} /\ got = {} /\ pass = {} /\ failed = {}
TReset == /\ IsEv("Reset")
          /\ inp' = [files |-> R.inp.files, cfg |-> R.inp.cfg, bad |-> ToSet(R.inp.bad)]
          /\ stage' = (IF R.inp.cfg.transform THEN "transform" ELSE "size") /\ phase' = "begin"
          /\ groups' = (IF R.inp.cfg.transform THEN {[len |-> 0, hash |-> {}, files |-> 1..Len(R.inp.files)]} ELSE {})
          /\ todo' = {} /\ got' = {} /\ pass' = {} /\ failed' = {}
TPaths == IsEv("StageDone") /\ R.stage = "paths" /\ BySize /\ Sets(groups') = Obs
TBegin == l <= Len(Rec) /\ Begin /\ UNCHANGED l
TTask == l <= Len(Rec) /\ phase = "tasks" /\ todo # {} /\ Task(CHOOSE r \in todo : TRUE) /\ UNCHANGED l
TEnd == /\ IsEv("StageDone")
        /\ \/ R.stage = stage /\ stage \in {"prefix", "suffix"}
           \/ R.stage = "done" /\ stage \in {"contents", "transform"}
        /\ End /\ Sets(groups') = Obs
TFilter == IsEv("StageDone") /\ R.stage = "done" /\ FinalFilter /\ Sets(groups') = Obs
TNext == TReset \/ TPaths \/ TBegin \/ TTask \/ TEnd \/ TFilter
TraceSpec == TInit /\ [][TNext]_tvars

Fail(name) == IF TLCGet(2) = 0 THEN TLCSet(2, l) /\ PrintT(<<"INVFAIL", name, l - 1>>) ELSE TRUE
Track == /\ TLCSet(1, IF TLCGet(1) > l THEN TLCGet(1) ELSE l)
         /\ (TypeOK \/ Fail("TypeOK")) /\ (Sound \/ Fail("Sound")) /\ (Complete \/ Fail("Complete")) /\ (CompleteSkip \/ Fail("CompleteSkip"))
         /\ (NeverSplit \/ Fail("NeverSplit")) /\ (FilterHonoured \/ Fail("FilterHonoured"))
         /\ (BadAlone \/ Fail("BadAlone")) /\ (OthersUnaffected \/ Fail("OthersUnaffected"))
Accepted == /\ TLCGet(2) = 0
            /\ \/ TLCGet(1) = Len(Rec) + 1
               \/ PrintT(<<"REJECTED", TLCGet(1), ToJson(Rec[TLCGet(1)])>>) /\ FALSE
=============================================================================
