CONSTANTS
  N = 4
  MaxSpurious = 1000
  Mode = "full"
SPECIFICATION TraceSpec
CONSTRAINT Track
POSTCONDITION Accepted
CHECK_DEADLOCK FALSE
