------------------------------ MODULE MC_Rehash ------------------------------
EXTENDS Rehash
MCNRuns == [d \in Devices |-> 3]
MCPool1 == [d \in Devices |-> 1]
MCPool2 == [d \in Devices |-> IF d = "d1" THEN 1 ELSE 2]
MCFail == {<<"d1", 2>>}
=============================================================================
