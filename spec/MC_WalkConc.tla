---------------------------- MODULE MC_WalkConc ----------------------------
(* Small trees that exercise the shapes the property names: two routes to one directory under different      *)
(* ignore files, two links from differently ruled directories, a link cycle, a link to a file outside the     *)
(* roots, a hidden directory reached through a link.  Every schedule of the visits is explored.               *)
EXTENDS WalkConc
E(parent, kind, hidden, ignBy, sel, target) == [parent |-> parent, kind |-> kind, hidden |-> hidden, ignBy |-> ignBy, sel |-> sel, target |-> target, dev |-> 1, blocked |-> FALSE]
Opts(follow, report, hid) == [depth |-> -1, hidden |-> hid, noIgnore |-> FALSE, follow |-> follow, report |-> report, oneFs |-> FALSE]
\* 1 R/   2 R/X/ (ignore file: k)   3 R/D/   4 R/D/k   5 R/X/l -> R/D   6 R/D/m
TwinRoute == [entries |-> <<E(0, "dir", FALSE, <<>>, FALSE, 0), E(1, "dir", FALSE, <<>>, FALSE, 0), E(1, "dir", FALSE, <<>>, FALSE, 0),
                            E(3, "file", FALSE, <<2>>, TRUE, 0), E(2, "link", FALSE, <<>>, FALSE, 3), E(3, "file", FALSE, <<>>, TRUE, 0)>>,
              roots |-> <<1>>, opts |-> Opts(TRUE, FALSE, FALSE)]
\* 1 R/  2 R/X/ (rule k)  3 R/Y/ (rule m)  4 T/ (outside)  5 T/k  6 T/m  7 R/X/l -> T  8 R/Y/l -> T
TwoLinks == [entries |-> <<E(0, "dir", FALSE, <<>>, FALSE, 0), E(1, "dir", FALSE, <<>>, FALSE, 0), E(1, "dir", FALSE, <<>>, FALSE, 0), E(0, "dir", FALSE, <<>>, FALSE, 0),
                           E(4, "file", FALSE, <<2>>, TRUE, 0), E(4, "file", FALSE, <<3>>, TRUE, 0), E(2, "link", FALSE, <<>>, FALSE, 4), E(3, "link", FALSE, <<>>, FALSE, 4)>>,
             roots |-> <<1>>, opts |-> Opts(TRUE, FALSE, FALSE)]
\* 1 R/  2 R/A/ (rule g)  3 R/A/f  4 R/A/up -> R  5 R/g
Cycle == [entries |-> <<E(0, "dir", FALSE, <<>>, FALSE, 0), E(1, "dir", FALSE, <<>>, FALSE, 0), E(2, "file", FALSE, <<>>, TRUE, 0), E(2, "link", FALSE, <<>>, FALSE, 1),
                        E(1, "file", FALSE, <<2>>, TRUE, 0)>>,
          roots |-> <<1, 2>>, opts |-> Opts(TRUE, FALSE, FALSE)]
\* 1 R/  2 R/l -> O/f  3 O/ (not a root)  4 O/f  5 R/.h/ (hidden)  6 R/.h/x  7 R/v -> R/.h   (links reported with -S are not followed when they point to files)
Mixed == [entries |-> <<E(0, "dir", FALSE, <<>>, FALSE, 0), E(1, "link", FALSE, <<>>, TRUE, 4), E(0, "dir", FALSE, <<>>, FALSE, 0), E(3, "file", FALSE, <<>>, TRUE, 0),
                        E(1, "dir", TRUE, <<>>, FALSE, 0), E(5, "file", FALSE, <<>>, TRUE, 0), E(1, "link", FALSE, <<>>, FALSE, 5)>>,
          roots |-> <<1>>, opts |-> Opts(TRUE, TRUE, FALSE)]
HandCases == {TwinRoute, TwoLinks, Cycle, Mixed}
\* the old keying loses files exactly on the trees with two differently ruled routes
RacyCases == {TwinRoute, TwoLinks, Cycle}
=============================================================================
