CONSTANTS
  N = 5
  Skip = {}
SPECIFICATION Spec
INVARIANTS InOrder AllPrinted
CHECK_DEADLOCK FALSE
