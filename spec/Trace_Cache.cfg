SPECIFICATION TraceSpec
CONSTRAINT Track
POSTCONDITION Accepted
CHECK_DEADLOCK FALSE
