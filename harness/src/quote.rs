//! C17: runs the real `quote` / `join` / `split` on enumerated argument lists.
//! `vharness quote <in.ndjson> <out.ndjson>`: input {id, args: [hex bytes, ...]}; output {id, line (the joined shell text, as hex),
//! split: [hex, ...] | err}. A panic of the code under test is caught and reported as `panic`.
use std::ffi::OsString;
use std::io::{BufRead, BufReader, Write};
use std::os::unix::ffi::{OsStrExt, OsStringExt};

use fclones::verif::{join, split, Arg};
use serde_json::{json, Value};

fn unhex(s: &str) -> Vec<u8> {
    (0..s.len()).step_by(2).map(|i| u8::from_str_radix(&s[i..i + 2], 16).unwrap()).collect()
}
fn hex(b: &[u8]) -> String {
    b.iter().map(|x| format!("{x:02x}")).collect()
}

pub fn run(args: &[String]) {
    let f = BufReader::new(std::fs::File::open(&args[0]).expect("input"));
    let mut out = std::io::BufWriter::new(std::fs::File::create(&args[1]).expect("out"));
    std::panic::set_hook(Box::new(|_| {}));
    for line in f.lines() {
        let v: Value = serde_json::from_str(&line.unwrap()).unwrap();
        let words: Vec<Arg> = v["args"].as_array().unwrap().iter().map(|h| Arg::from(OsString::from_vec(unhex(h.as_str().unwrap())))).collect();
        let res = std::panic::catch_unwind(|| {
            let line = join(&words);
            let back = split(&line);
            (line, back.map(|v| v.iter().map(|a| hex(a.as_os_str().as_bytes())).collect::<Vec<_>>()).map_err(|e| e.to_string()))
        });
        let o = match res {
            Err(_) => json!({"id": v["id"], "panic": true}),
            Ok((line, Ok(back))) => json!({"id": v["id"], "line": hex(line.as_bytes()), "split": back}),
            Ok((line, Err(e))) => json!({"id": v["id"], "line": hex(line.as_bytes()), "err": e}),
        };
        writeln!(out, "{}", o).unwrap();
    }
    out.flush().unwrap();
}
