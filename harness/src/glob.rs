//! C16: runs the real glob matcher (`fclones::verif::Pattern`) on TLC-enumerated vectors.
//! `vharness glob <vectors.ndjson> <out.ndjson> <maxlen>`: every input line {id, glob, ci}; the universe is every string of up to
//! maxlen characters over the alphabet of MC_Glob.tla. Output per line: the strings matched, the directories `d` for which
//! matches_partially(d/) holds and those for which matches_prefix(d/) holds.
use std::io::{BufRead, BufReader, Write};

use fclones::verif::{Pattern, PatternOpts};
use serde_json::{json, Value};

const ALPHABET: [&str; 6] = ["a", "A", ".", "-", "ż", "/"];

fn universe(maxlen: usize) -> Vec<String> {
    let mut all = vec![String::new()];
    let mut last = vec![String::new()];
    for _ in 0..maxlen {
        let mut next = Vec::new();
        for s in &last {
            for c in ALPHABET {
                next.push(format!("{s}{c}"));
            }
        }
        all.extend(next.iter().cloned());
        last = next;
    }
    all
}

pub fn run(args: &[String]) {
    let f = BufReader::new(std::fs::File::open(&args[0]).expect("vectors"));
    let mut out = std::io::BufWriter::new(std::fs::File::create(&args[1]).expect("out"));
    let maxlen: usize = args[2].parse().unwrap();
    let uni = universe(maxlen);
    let dirs: Vec<&String> = uni.iter().filter(|s| !s.ends_with('/') && s.chars().count() < maxlen).collect();
    for line in f.lines() {
        let v: Value = serde_json::from_str(&line.unwrap()).unwrap();
        let glob = v["glob"].as_str().unwrap();
        let opts = if v["ci"].as_bool().unwrap() { PatternOpts::case_insensitive() } else { PatternOpts::default() };
        let res = match Pattern::glob_with(glob, &opts) {
            Err(e) => json!({"id": v["id"], "err": e.to_string()}),
            Ok(p) => {
                let matching: Vec<&String> = uni.iter().filter(|s| p.matches(s)).collect();
                let partial: Vec<&String> = dirs.iter().filter(|d| p.matches_partially(&format!("{d}/"))).cloned().collect();
                let prefix: Vec<&String> = dirs.iter().filter(|d| p.matches_prefix(&format!("{d}/"))).cloned().collect();
                json!({"id": v["id"], "matching": matching, "partial": partial, "prefix": prefix})
            }
        };
        writeln!(out, "{}", res).unwrap();
    }
    out.flush().unwrap();
}

/// `vharness selector <in.ndjson> <out.ndjson> <maxlen>`: {id, globs: [absolute globs]} -> the absolute strings "/"+s selected by a
/// PathSelector with these --path patterns, and the directories "/"+d it would enter.
pub fn selector(args: &[String]) {
    use fclones::verif::PathSelector;
    use fclones::Path;
    let f = BufReader::new(std::fs::File::open(&args[0]).expect("vectors"));
    let mut out = std::io::BufWriter::new(std::fs::File::create(&args[1]).expect("out"));
    let maxlen: usize = args[2].parse().unwrap();
    let uni = universe(maxlen);
    for line in f.lines() {
        let v: Value = serde_json::from_str(&line.unwrap()).unwrap();
        let pats: Result<Vec<Pattern>, _> = v["globs"].as_array().unwrap().iter().map(|g| Pattern::glob(g.as_str().unwrap())).collect();
        let res = match pats {
            Err(e) => json!({"id": v["id"], "err": e.to_string(), "matching": [], "dirs": []}),
            Ok(p) => {
                let selr = PathSelector::new(Path::from("/")).include_paths(p);
                let matching: Vec<String> = uni.iter().filter(|s| !s.is_empty() && !s.contains("//") && !s.ends_with('/'))
                    .map(|s| format!("/{s}")).filter(|s| selr.matches_full_path(&Path::from(s.as_str()))).collect();
                let dirs: Vec<String> = uni.iter().filter(|s| !s.is_empty() && !s.contains("//") && !s.ends_with('/') && !s.starts_with('/'))
                    .map(|s| format!("/{s}")).filter(|s| selr.matches_dir(&Path::from(s.as_str()))).collect();
                json!({"id": v["id"], "matching": matching, "dirs": dirs})
            }
        };
        writeln!(out, "{}", res).unwrap();
    }
    out.flush().unwrap();
}
