//! Conformance harness of the fclones verification machinery (built with --cfg fclones_verif).
mod glob;
mod quote;
mod report;
mod sem;

fn main() {
    let args: Vec<String> = std::env::args().collect();
    if args.len() < 2 {
        eprintln!("usage: vharness <command> ...");
        std::process::exit(2);
    }
    let rest = &args[2..];
    match args[1].as_str() {
        "sem-replay" => sem::replay(rest),
        "sem-stress" => sem::stress(rest),
        "glob" => glob::run(rest),
        "quote" => quote::run(rest),
        "report" => report::run(rest),
        "selector" => glob::selector(rest),
        other => {
            eprintln!("unknown command {other}");
            std::process::exit(2);
        }
    }
}
