//! C19: drives the real `fclones::verif::Semaphore` through TLC-generated macro-step schedules
//! (gates at the hook points where no lock is held) or under seeded stress, and records the
//! fine-grained hook events plus hook-independent observer events as an ndjson trace.

use std::cell::Cell;
use std::io::{BufRead, BufReader, Write};
use std::sync::{Arc, Condvar, Mutex};
use std::thread;
use std::time::{Duration, Instant};

use fclones::verif::{OwnedSemaphoreGuard, Semaphore};
use rand::{Rng, SeedableRng};
use serde_json::{json, Value};

#[derive(Clone, Debug, PartialEq)]
enum Status {
    Running,
    AtGate(&'static str),
    Sleeping,
    Done,
}

struct CtlState {
    status: Vec<Status>,
    grants: Vec<usize>,
    skip_relstart: Vec<bool>,
    wakes: usize,
    events: Vec<Value>,
    gated: bool,
    stress_seed: u64,
}

struct Ctl {
    m: Mutex<CtlState>,
    cv: Condvar,
}

thread_local! {
    static HT: Cell<Option<usize>> = const { Cell::new(None) };
}

static CURRENT: Mutex<Option<Arc<Ctl>>> = Mutex::new(None);

fn current() -> Option<Arc<Ctl>> {
    CURRENT.lock().unwrap().clone()
}

impl Ctl {
    fn record(&self, v: Value) {
        self.m.lock().unwrap().events.push(v);
    }

    /// Blocks the calling harness thread `t` until the scheduler grants it one step of `kind`.
    fn gate(&self, t: usize, kind: &'static str) {
        let mut s = self.m.lock().unwrap();
        if !s.gated {
            return;
        }
        s.status[t] = Status::AtGate(kind);
        self.cv.notify_all();
        while s.grants[t] == 0 {
            s = self.cv.wait(s).unwrap();
        }
        s.grants[t] -= 1;
        s.status[t] = Status::Running;
        self.cv.notify_all();
    }
}

fn stress_pause(ctl: &Ctl, t: usize) {
    // seeded pseudo-random short pause / yield at a hook point (stress mode only)
    let seed = {
        let mut s = ctl.m.lock().unwrap();
        s.stress_seed = s.stress_seed.wrapping_mul(6364136223846793005).wrapping_add(1442695040888963407 + t as u64);
        s.stress_seed
    };
    match (seed >> 33) % 4 {
        0 => thread::yield_now(),
        1 => {
            let n = (seed >> 40) % 200;
            for _ in 0..n {
                std::hint::spin_loop();
            }
        }
        2 => thread::sleep(Duration::from_micros((seed >> 45) % 50)),
        _ => {}
    }
}

/// The callback installed into `fclones::verif`: called at every semaphore hook point.
fn on_event(ev: &str, fields: &str) {
    let Some(t) = HT.with(|h| h.get()) else { return };
    let Some(ctl) = current() else { return };
    let f: Value = serde_json::from_str(&format!("{{{fields}}}")).unwrap_or(json!({}));
    let count = f.get("count").cloned();
    let mut rec = json!({"ev": ev, "t": t + 1});
    if let Some(c) = count {
        rec["count"] = c;
    }
    let gated = ctl.m.lock().unwrap().gated;
    match ev {
        "AcqEnter" => {
            // gate first, then record: the event is logged when the thread is released
            ctl.gate(t, "Try");
            ctl.record(rec);
            if !gated {
                stress_pause(&ctl, t);
            }
        }
        "AcqSleep" => {
            let mut s = ctl.m.lock().unwrap();
            s.events.push(rec);
            s.status[t] = Status::Sleeping;
            ctl.cv.notify_all();
        }
        "AcqWake" => {
            let mut s = ctl.m.lock().unwrap();
            s.events.push(rec);
            s.status[t] = Status::Running;
            s.wakes += 1;
            ctl.cv.notify_all();
        }
        "AcqDone" => ctl.record(rec),
        "RelStart" => {
            let skip = {
                let mut s = ctl.m.lock().unwrap();
                std::mem::replace(&mut s.skip_relstart[t], false)
            };
            if !skip {
                ctl.gate(t, "Inc");
            }
            ctl.record(rec);
            if !gated {
                stress_pause(&ctl, t);
            }
        }
        "RelMid" => {
            ctl.record(rec);
            ctl.gate(t, "Notify");
            if !gated {
                stress_pause(&ctl, t);
            }
        }
        "RelEnd" => ctl.record(rec),
        _ => {}
    }
}

fn wait_until<F: Fn(&CtlState) -> bool>(ctl: &Ctl, timeout: Duration, cond: F) -> bool {
    let deadline = Instant::now() + timeout;
    let mut s = ctl.m.lock().unwrap();
    loop {
        if cond(&s) {
            return true;
        }
        let now = Instant::now();
        if now >= deadline {
            return false;
        }
        let (g, _) = ctl.cv.wait_timeout(s, deadline - now).unwrap();
        s = g;
    }
}

fn stable(s: &CtlState) -> bool {
    s.status.iter().all(|x| !matches!(x, Status::Running))
}

/// Runs one scenario and returns its trace (list of events, starting with Reset, ending with End [+ Probe]).
pub fn run_scenario(id: usize, permits: isize, prog: &[Vec<String>], sched: &[(String, usize)], stress: Option<u64>, probe: bool) -> Vec<Value> {
    let n = prog.len();
    let ctl = Arc::new(Ctl {
        m: Mutex::new(CtlState {
            status: vec![Status::Running; n],
            grants: vec![0; n],
            skip_relstart: vec![false; n],
            wakes: 0,
            events: vec![json!({"ev": "Reset", "id": id, "permits": permits, "prog": prog, "stress": stress.is_some()})],
            gated: stress.is_none(),
            stress_seed: stress.unwrap_or(0),
        }),
        cv: Condvar::new(),
    });
    *CURRENT.lock().unwrap() = Some(ctl.clone());
    let sem = Arc::new(Semaphore::new(permits));
    let pool: Arc<Mutex<Vec<OwnedSemaphoreGuard>>> = Arc::new(Mutex::new(Vec::new()));

    let mut handles = Vec::new();
    for (t, p) in prog.iter().enumerate() {
        let (ctl, sem, pool, p) = (ctl.clone(), sem.clone(), pool.clone(), p.clone());
        handles.push(thread::spawn(move || {
            HT.with(|h| h.set(Some(t)));
            let mut mine: Vec<OwnedSemaphoreGuard> = Vec::new();
            for op in p.iter() {
                match op.as_str() {
                    "A" => {
                        let g = sem.clone().access_owned();
                        ctl.record(json!({"ev": "Acquired", "t": t + 1}));
                        mine.push(g);
                    }
                    "R" => {
                        let g = mine.pop().expect("program releases a guard it does not hold");
                        // "Releasing" is recorded by the gate-released RelStart path: record before the drop
                        ctl.record(json!({"ev": "Releasing", "t": t + 1}));
                        drop(g);
                    }
                    "H" => {
                        ctl.gate(t, "Hand");
                        let g = mine.pop().expect("hand-over without a guard");
                        // recorded before the guard becomes visible in the pool
                        ctl.record(json!({"ev": "Hand", "t": t + 1}));
                        pool.lock().unwrap().push(g);
                    }
                    "X" => {
                        // wait for the scheduler before taking the guard; the RelStart gate is then skipped
                        let gated = ctl.m.lock().unwrap().gated;
                        let g = if gated {
                            ctl.gate(t, "Inc");
                            ctl.m.lock().unwrap().skip_relstart[t] = true;
                            loop {
                                // (only in adaptive mode can the pool still be empty here)
                                if let Some(g) = pool.lock().unwrap().pop() {
                                    break g;
                                }
                                thread::yield_now();
                            }
                        } else {
                            loop {
                                if let Some(g) = pool.lock().unwrap().pop() {
                                    break g;
                                }
                                thread::yield_now();
                            }
                        };
                        ctl.record(json!({"ev": "Releasing", "t": t + 1}));
                        drop(g);
                    }
                    "P" => {
                        ctl.record(json!({"ev": "Posting", "t": t + 1}));
                        sem.release();
                    }
                    _ => panic!("unknown op"),
                }
            }
            // guards still held at the end of the program stay outstanding: leak them on purpose
            for g in mine {
                std::mem::forget(g);
            }
            let mut s = ctl.m.lock().unwrap();
            s.status[t] = Status::Done;
            ctl.cv.notify_all();
        }));
    }

    let step_timeout = Duration::from_millis(1000);
    let mut skipped = 0usize;
    let degraded = Cell::new(false);
    // If the threads do not become stable (a gate was reached while a lock is held, so that other
    // threads block on that lock) the schedule cannot be imposed: open all gates and let the run finish freely.
    let open_all = || {
        let mut s = ctl.m.lock().unwrap();
        s.gated = false;
        for g in s.grants.iter_mut() {
            *g += 1000;
        }
        ctl.cv.notify_all();
        degraded.set(true);
    };
    if stress.is_none() {
        let do_step = |kind: &str, t: usize| -> bool {
            if degraded.get() {
                return false;
            }
            if !wait_until(&ctl, step_timeout, stable) {
                open_all();
                return false;
            }
            let mut s = ctl.m.lock().unwrap();
            if kind == "Spur" {
                let expected = s.status.iter().filter(|x| **x == Status::Sleeping).count();
                let before = s.wakes;
                s.events.push(json!({"ev": "Spur"}));
                drop(s);
                // give sleepers that have just logged AcqSleep the time to really enter cvar.wait
                thread::sleep(Duration::from_micros(300));
                sem.verif_spurious_wakeup();
                wait_until(&ctl, Duration::from_millis(500), |s| s.wakes >= before + expected && stable(s));
                return true;
            }
            let kind_static: &'static str = match kind {
                "Try" => "Try",
                "Inc" => "Inc",
                "Notify" => "Notify",
                "Hand" => "Hand",
                _ => return false,
            };
            if s.status[t] != Status::AtGate(kind_static) {
                return false;
            }
            let expected = if kind == "Notify" && s.status.iter().any(|x| *x == Status::Sleeping) { 1 } else { 0 };
            let before = s.wakes;
            s.grants[t] += 1;
            s.status[t] = Status::Running;
            ctl.cv.notify_all();
            drop(s);
            wait_until(&ctl, Duration::from_millis(300), |s| s.wakes >= before + expected && stable(s));
            true
        };
        for (kind, t) in sched.iter() {
            let ti = if *t == 0 { 0 } else { *t - 1 };
            if !do_step(kind, ti) {
                skipped += 1;
            }
        }
        // drain: let every thread that is at a gate proceed, until nothing moves any more
        loop {
            if degraded.get() {
                break;
            }
            if !wait_until(&ctl, step_timeout, stable) {
                open_all();
                break;
            }
            let next = {
                let s = ctl.m.lock().unwrap();
                s.status.iter().enumerate().find_map(|(i, x)| match x {
                    Status::AtGate(k) => Some((i, *k)),
                    _ => None,
                })
            };
            match next {
                Some((i, k)) => {
                    do_step(k, i);
                }
                None => break,
            }
        }
    }
    // end of the run: everybody must be done (closed systems); generous bound before declaring a thread stuck
    let all_done = wait_until(&ctl, Duration::from_millis(6000), |s| s.status.iter().all(|x| *x == Status::Done));
    let stuck: Vec<usize> = {
        let s = ctl.m.lock().unwrap();
        s.status.iter().enumerate().filter(|(_, x)| **x != Status::Done).map(|(i, _)| i + 1).collect()
    };
    ctl.record(json!({"ev": "End", "stuck": stuck, "skipped": skipped, "degraded": degraded.get()}));
    if all_done {
        for h in handles {
            let _ = h.join();
        }
        if probe {
            // hook-independent restoration probe: acquire until it blocks
            let (tx, rx) = std::sync::mpsc::channel();
            let sem2 = sem.clone();
            thread::spawn(move || {
                loop {
                    sem2.acquire();
                    if tx.send(()).is_err() {
                        break;
                    }
                }
            });
            let mut got = 0;
            while rx.recv_timeout(Duration::from_millis(20)).is_ok() {
                got += 1;
                if got > 64 {
                    break;
                }
            }
            ctl.record(json!({"ev": "Probe", "got": got}));
        }
    }
    *CURRENT.lock().unwrap() = None;
    let evs = std::mem::take(&mut ctl.m.lock().unwrap().events);
    evs
}

pub fn install() {
    fclones::verif::set_callback(Some(Box::new(on_event)));
}

/// `vharness sem-replay <schedules.ndjson> <out.ndjson> [probe-every]`
pub fn replay(args: &[String]) {
    install();
    let f = BufReader::new(std::fs::File::open(&args[0]).expect("schedule file"));
    let mut out = std::io::BufWriter::new(std::fs::File::create(&args[1]).expect("output"));
    let probe_every: usize = args.get(2).and_then(|s| s.parse().ok()).unwrap_or(10);
    // budgets: a defective semaphore makes runs hang until their timeouts; stop early, what was recorded is enough
    let budget = Duration::from_secs(args.get(3).and_then(|s| s.parse().ok()).unwrap_or(240));
    let max_bad: usize = args.get(4).and_then(|s| s.parse().ok()).unwrap_or(6);
    let started = Instant::now();
    let mut bad = 0usize;
    let mut id = 0usize;
    for line in f.lines() {
        if started.elapsed() > budget || bad >= max_bad {
            eprintln!("sem-replay: stopping early after {id} schedules (bad runs: {bad})");
            break;
        }
        let line = line.unwrap();
        if line.trim().is_empty() {
            continue;
        }
        let v: Value = serde_json::from_str(&line).expect("schedule json");
        id += 1;
        let permits = v["permits"].as_i64().unwrap() as isize;
        let prog: Vec<Vec<String>> = v["prog"].as_array().unwrap().iter()
            .map(|p| p.as_array().unwrap().iter().map(|o| o.as_str().unwrap().to_string()).collect()).collect();
        let sched: Vec<(String, usize)> = v["sched"].as_array().map(|a| a.iter()
            .map(|s| (s[0].as_str().unwrap().to_string(), s[1].as_u64().unwrap() as usize)).collect()).unwrap_or_default();
        let stress = v.get("stress").and_then(|s| s.as_u64());
        let evs = run_scenario(id, permits, &prog, &sched, stress, id % probe_every == 0);
        if evs.iter().any(|e| e["ev"] == "End" && (e["stuck"].as_array().map(|a| !a.is_empty()).unwrap_or(false) || e["degraded"] == true)) {
            bad += 1;
        }
        for e in evs {
            writeln!(out, "{}", e).unwrap();
        }
    }
    out.flush().unwrap();
}

/// `vharness sem-stress <seed> <count> <out.ndjson>`: seeded random closed programs without gates.
pub fn stress(args: &[String]) {
    install();
    let seed: u64 = args[0].parse().unwrap();
    let count: usize = args[1].parse().unwrap();
    let mut out = std::io::BufWriter::new(std::fs::File::create(&args[2]).expect("output"));
    let mut rng = rand::rngs::StdRng::seed_from_u64(seed);
    let started = Instant::now();
    let mut bad = 0usize;
    for id in 1..=count {
        if started.elapsed() > Duration::from_secs(240) || bad >= 6 {
            eprintln!("sem-stress: stopping early after {id} runs (bad runs: {bad})");
            break;
        }
        let n = rng.gen_range(2..=4usize);
        let shape = rng.gen_range(0..3);
        let (permits, prog): (isize, Vec<Vec<String>>) = match shape {
            0 => {
                let permits = rng.gen_range(1..=2);
                (permits, (0..n).map(|_| {
                    let k = rng.gen_range(1..=3);
                    (0..k).flat_map(|_| vec!["A".to_string(), "R".to_string()]).collect()
                }).collect())
            }
            1 => {
                let k = rng.gen_range(1..=2usize);
                let permits = rng.gen_range(1..=2);
                let mut p: Vec<Vec<String>> = Vec::new();
                p.push((0..k).flat_map(|_| vec!["A".to_string(), "H".to_string()]).collect());
                p.push((0..k).map(|_| "X".to_string()).collect());
                for _ in 2..n {
                    p.push(vec!["A".to_string(), "R".to_string()]);
                }
                (permits, p)
            }
            _ => {
                let permits = rng.gen_range(0..=1);
                let k = n - 1;
                let mut p: Vec<Vec<String>> = vec![(0..k).map(|_| "P".to_string()).collect()];
                for _ in 0..k {
                    p.push(vec!["A".to_string()]);
                }
                (permits, p)
            }
        };
        let evs = run_scenario(id, permits, &prog, &[], Some(rng.gen()), id % 5 == 0);
        if evs.iter().any(|e| e["ev"] == "End" && e["stuck"].as_array().map(|a| !a.is_empty()).unwrap_or(false)) {
            bad += 1;
        }
        for e in evs {
            writeln!(out, "{}", e).unwrap();
        }
    }
    out.flush().unwrap();
}
