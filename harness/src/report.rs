//! C10: writes reports with the real `ReportWriter` and reads them back with the real readers.
//! `vharness report <in.ndjson> <out.ndjson>`: input {id, fmt ("text"|"json"), ts_ms, command: [hex], base_dir: hex, groups: [{len, hash (hex 32), paths: [hex]}],
//! cuts: [byte offsets]}. Output {id, written (hex), back: {..} | err, cuts: [{at, header_err, groups_read, err, paths: [[hex]]}]}.
use std::ffi::OsString;
use std::io::{BufRead, BufReader, Cursor, Write};
use std::os::unix::ffi::{OsStrExt, OsStringExt};

use chrono::{DateTime, FixedOffset, TimeZone};
use fallible_iterator::FallibleIterator;
use fclones::config::OutputFormat;
use fclones::report::{open_report, FileStats, ReportHeader, ReportWriter};
use fclones::verif::Arg;
use fclones::{FileGroup, FileHash, FileLen, Path};
use serde_json::{json, Value};

fn unhex(s: &str) -> Vec<u8> {
    (0..s.len()).step_by(2).map(|i| u8::from_str_radix(&s[i..i + 2], 16).unwrap()).collect()
}
fn hex(b: &[u8]) -> String {
    b.iter().map(|x| format!("{x:02x}")).collect()
}
fn path_hex(p: &Path) -> String {
    hex(p.to_path_buf().as_os_str().as_bytes())
}

fn read_all(data: Vec<u8>) -> Value {
    let mut reader = match open_report(Cursor::new(data)) {
        Ok(r) => r,
        Err(e) => return json!({"header_err": e.to_string()}),
    };
    let header = match reader.read_header() {
        Ok(h) => h,
        Err(e) => return json!({"header_err": e.to_string()}),
    };
    let stats = header.stats.clone();
    let mut out = json!({
        "ts_ms": header.timestamp.timestamp_millis(), "offset": header.timestamp.offset().local_minus_utc(),
        "command": header.command.iter().map(|a| hex(a.as_os_str().as_bytes())).collect::<Vec<_>>(),
        "base_dir": path_hex(&header.base_dir), "version": header.version,
        "stats": stats.map(|s| json!([s.group_count, s.total_file_count, s.total_file_size.0, s.redundant_file_count, s.redundant_file_size.0, s.missing_file_count, s.missing_file_size.0])),
    });
    let mut groups = Vec::new();
    match reader.read_groups() {
        Err(e) => {
            out["err"] = json!(e.to_string());
        }
        Ok(mut it) => loop {
            match it.next() {
                Ok(Some(g)) => groups.push(json!({"len": g.file_len.0, "hash": g.file_hash.to_string(), "paths": g.files.iter().map(path_hex).collect::<Vec<_>>()})),
                Ok(None) => break,
                Err(e) => {
                    out["err"] = json!(e.to_string());
                    break;
                }
            }
        },
    }
    out["groups"] = json!(groups);
    out
}

pub fn run(args: &[String]) {
    let f = BufReader::new(std::fs::File::open(&args[0]).expect("input"));
    let mut out = std::io::BufWriter::new(std::fs::File::create(&args[1]).expect("out"));
    std::panic::set_hook(Box::new(|_| {}));
    for line in f.lines() {
        let v: Value = serde_json::from_str(&line.unwrap()).unwrap();
        let res = std::panic::catch_unwind(|| {
            let ts: DateTime<FixedOffset> = FixedOffset::east_opt(v["offset"].as_i64().unwrap_or(0) as i32).unwrap().timestamp_millis_opt(v["ts_ms"].as_i64().unwrap()).unwrap();
            let groups: Vec<FileGroup<Path>> = v["groups"].as_array().unwrap().iter().map(|g| FileGroup {
                file_len: FileLen(g["len"].as_u64().unwrap()),
                file_hash: FileHash::from(unhex(g["hash"].as_str().unwrap()).as_slice()),
                files: g["paths"].as_array().unwrap().iter().map(|p| Path::from(OsString::from_vec(unhex(p.as_str().unwrap())))).collect(),
            }).collect();
            let st = v["stats"].as_array().unwrap();
            let header = ReportHeader {
                version: "0.35.0".to_string(),
                timestamp: ts,
                command: v["command"].as_array().unwrap().iter().map(|a| Arg::from(OsString::from_vec(unhex(a.as_str().unwrap())))).collect(),
                base_dir: Path::from(OsString::from_vec(unhex(v["base_dir"].as_str().unwrap()))),
                stats: Some(FileStats { group_count: st[0].as_u64().unwrap() as usize, total_file_count: st[1].as_u64().unwrap() as usize, total_file_size: FileLen(st[2].as_u64().unwrap()),
                    redundant_file_count: st[3].as_u64().unwrap() as usize, redundant_file_size: FileLen(st[4].as_u64().unwrap()),
                    missing_file_count: st[5].as_u64().unwrap() as usize, missing_file_size: FileLen(st[6].as_u64().unwrap()) }),
            };
            let mut buf = Vec::new();
            {
                let mut w = ReportWriter::new(&mut buf, false);
                let fmt = if v["fmt"] == "json" { OutputFormat::Json } else { OutputFormat::Default };
                w.write(fmt, &header, groups.iter()).unwrap();
            }
            let back = read_all(buf.clone());
            let cuts: Vec<Value> = match v["cuts"].as_str() {
                Some("all") => (0..buf.len()).collect::<Vec<_>>(),
                _ => v["cuts"].as_array().map(|a| a.iter().map(|x| (x.as_f64().unwrap() * buf.len() as f64) as usize).collect()).unwrap_or_default(),
            }.into_iter().filter(|&at| at < buf.len()).map(|at| { let mut r = read_all(buf[..at].to_vec()); r["at"] = json!(at); r }).collect();
            json!({"id": v["id"], "written": hex(&buf), "back": back, "cuts": cuts})
        });
        match res {
            Ok(o) => writeln!(out, "{}", o).unwrap(),
            Err(_) => writeln!(out, "{}", json!({"id": v["id"], "panic": true})).unwrap(),
        }
    }
    out.flush().unwrap();
}
