/*
 * fsshim - LD_PRELOAD interposer used by the fclones verification machinery.
 *
 * Logs file-system calls of the process as ndjson (one line per completed call, global
 * sequence number, thread id, arguments, result), and executes a fault plan:
 *
 *   FSSHIM_LOG   = file to append the log to (if unset: no logging)
 *   FSSHIM_ROOT  = only calls with at least one path argument under one of these
 *                  ':'-separated prefixes are logged / counted / matched
 *   FSSHIM_PLAN  = rules separated by '\n' or ';;' :   <call>|<path-substr>|<nth>|<action>
 *        call        name of the interposed function class (rename, link, symlink, unlink, mkdir,
 *                    openw (open for write/create), openr, read, write, stat, lstat, opendir, readdir,
 *                    readlink, clone, fiemap, utimes, chmod, chown, copy, truncate, lock, close, rmdir)
 *                    or "mut" = any mutating call, or "*" = any call
 *        path-substr substring that must occur in one of the path arguments ("" = any)
 *        nth         fire on the n-th matching call (1-based); 0 = every matching call; -n = from the n-th call on
 *        action      fail=<errno number> | killbefore | killafter | runbefore=<cmd> | runafter=<cmd>
 *   FSSHIM_EMUCLONE = 1 : ioctl(FICLONE) is emulated by copying the bytes, after the kernel's own checks (no reflink fs here)
 *
 * Own code of the verification framework; not derived from the repository under test.
 */
#define _GNU_SOURCE
#include <dlfcn.h>
#include <dirent.h>
#include <errno.h>
#include <fcntl.h>
#include <limits.h>
#include <pthread.h>
#include <signal.h>
#include <stdarg.h>
#include <stdint.h>
#include <stdio.h>
#include <stdlib.h>
#include <string.h>
#include <sys/ioctl.h>
#include <sys/sendfile.h>
#include <sys/stat.h>
#include <sys/syscall.h>
#include <sys/types.h>
#include <sys/wait.h>
#include <unistd.h>
#include <linux/fs.h>
#include <linux/fiemap.h>

#ifndef FICLONE
#define FICLONE _IOW(0x94, 9, int)
#endif
#ifndef FS_IOC_FIEMAP
#define FS_IOC_FIEMAP 0xC020660B
#endif

#define MAXFD 65536
#define MAXRULES 16

static int log_fd = -1;
static int inited = 0;
static int emu_clone = 0;
static char *roots[16];
static int nroots = 0;
static volatile long seqno = 0;
static pthread_mutex_t mu = PTHREAD_MUTEX_INITIALIZER;
static char *fdpath[MAXFD];
static char fdwr[MAXFD];
static char copied[MAXFD];   /* copy_file_range already moved data into this descriptor */

struct rule {
    char call[16];
    char sub[256];
    long nth;
    long count;
    int action; /* 1 fail, 2 killbefore, 3 killafter, 4 runbefore, 5 runafter */
    int err;
    char cmd[1024];
};
static struct rule rules[MAXRULES];
static int nrules = 0;

static const char *MUT[] = {"rename", "link", "symlink", "unlink", "mkdir", "rmdir", "openw", "write",
                            "clone", "utimes", "chmod", "chown", "copy", "truncate", NULL};

static int is_mut(const char *c) {
    for (int i = 0; MUT[i]; i++)
        if (!strcmp(MUT[i], c)) return 1;
    return 0;
}

static void parse_plan(const char *plan) {
    char *p = strdup(plan);
    char *cur = p;
    while (cur && *cur && nrules < MAXRULES) {
        char *end = strstr(cur, ";;");
        char *nl = strchr(cur, '\n');
        char *next = NULL;
        if (nl && (!end || nl < end)) { *nl = 0; next = nl + 1; }
        else if (end) { *end = 0; next = end + 2; }
        struct rule *r = &rules[nrules];
        memset(r, 0, sizeof *r);
        char *f1 = cur, *f2 = strchr(f1, '|');
        if (!f2) { cur = next; continue; }
        *f2++ = 0;
        char *f3 = strchr(f2, '|');
        if (!f3) { cur = next; continue; }
        *f3++ = 0;
        char *f4 = strchr(f3, '|');
        if (!f4) { cur = next; continue; }
        *f4++ = 0;
        strncpy(r->call, f1, sizeof r->call - 1);
        strncpy(r->sub, f2, sizeof r->sub - 1);
        r->nth = atol(f3);
        if (!strncmp(f4, "fail=", 5)) { r->action = 1; r->err = atoi(f4 + 5); }
        else if (!strcmp(f4, "killbefore")) r->action = 2;
        else if (!strcmp(f4, "killafter")) r->action = 3;
        else if (!strncmp(f4, "runbefore=", 10)) { r->action = 4; strncpy(r->cmd, f4 + 10, sizeof r->cmd - 1); }
        else if (!strncmp(f4, "runafter=", 9)) { r->action = 5; strncpy(r->cmd, f4 + 9, sizeof r->cmd - 1); }
        if (r->action) nrules++;
        cur = next;
    }
    free(p);
}

static void init(void) {
    if (inited) return;
    pthread_mutex_lock(&mu);
    if (!inited) {
        const char *l = getenv("FSSHIM_LOG");
        if (l && *l) log_fd = (int)syscall(SYS_openat, AT_FDCWD, l, O_WRONLY | O_CREAT | O_APPEND | O_CLOEXEC, 0644);
        const char *r = getenv("FSSHIM_ROOT");
        if (r && *r) {
            char *d = strdup(r), *s = d;
            while (s && *s && nroots < 16) {
                char *c = strchr(s, ':');
                if (c) *c = 0;
                roots[nroots++] = s;
                s = c ? c + 1 : NULL;
            }
        }
        const char *e = getenv("FSSHIM_EMUCLONE");
        emu_clone = e && *e == '1';
        const char *p = getenv("FSSHIM_PLAN");
        if (p && *p) parse_plan(p);
        inited = 1;
    }
    pthread_mutex_unlock(&mu);
}

static int under_root(const char *p) {
    if (!p) return 0;
    if (nroots == 0) return 1;
    for (int i = 0; i < nroots; i++) {
        size_t n = strlen(roots[i]);
        if (!strncmp(p, roots[i], n)) return 1;
    }
    return 0;
}

static char *abs_path(int dirfd, const char *p, char *buf) {
    if (!p) return NULL;
    if (p[0] == '/') { strncpy(buf, p, PATH_MAX - 1); buf[PATH_MAX - 1] = 0; return buf; }
    if (dirfd == AT_FDCWD) {
        char cwd[PATH_MAX];
        if (syscall(SYS_getcwd, cwd, sizeof cwd) < 0) cwd[0] = 0;
        snprintf(buf, PATH_MAX, "%s/%s", cwd, p);
        return buf;
    }
    if (dirfd >= 0 && dirfd < MAXFD && fdpath[dirfd]) {
        snprintf(buf, PATH_MAX, "%s/%s", fdpath[dirfd], p);
        return buf;
    }
    strncpy(buf, p, PATH_MAX - 1); buf[PATH_MAX - 1] = 0;
    return buf;
}

static int jesc(char *out, const char *s) {
    char *o = out;
    *o++ = '"';
    for (const unsigned char *c = (const unsigned char *)s; c && *c; c++) {
        if (*c == '"' || *c == '\\' || *c < 0x20 || *c >= 0x7f) o += sprintf(o, "\\u%04x", *c);
        else *o++ = (char)*c;
    }
    *o++ = '"';
    *o = 0;
    return (int)(o - out);
}

static void run_cmd(const char *cmd) {
    pid_t pid = (pid_t)syscall(SYS_fork);
    if (pid == 0) {
        unsetenv("LD_PRELOAD");
        unsetenv("FSSHIM_PLAN");
        unsetenv("FSSHIM_LOG");
        execl("/bin/sh", "sh", "-c", cmd, (char *)NULL);
        syscall(SYS_exit_group, 127);
    } else if (pid > 0) {
        int st;
        while (syscall(SYS_wait4, pid, &st, 0, NULL) < 0 && errno == EINTR) {}
    }
}

static void logline(const char *call, const char *p1, const char *p2, long ret, int err, int inj, long a, long b) {
    if (log_fd < 0) return;
    char buf[3 * PATH_MAX * 2 + 512];
    int n = 0;
    long s = __sync_add_and_fetch(&seqno, 1);
    n += sprintf(buf + n, "{\"seq\":%ld,\"pid\":%d,\"tid\":%ld,\"call\":\"%s\"", s, (int)getpid(), (long)syscall(SYS_gettid), call);
    if (p1) { n += sprintf(buf + n, ",\"p1\":"); n += jesc(buf + n, p1); }
    if (p2) { n += sprintf(buf + n, ",\"p2\":"); n += jesc(buf + n, p2); }
    n += sprintf(buf + n, ",\"ret\":%ld,\"errno\":%d,\"inj\":%d,\"a\":%ld,\"b\":%ld}\n", ret, err, inj, a, b);
    syscall(SYS_write, log_fd, buf, n);
}

/* returns: 0 proceed; 1 fail with *err.  May kill the process or run commands. *after: action to do after the call */
struct dec { int fail; int err; int kill_after; const char *run_after; };

static int relevant(const char *p1, const char *p2) {
    return under_root(p1) || under_root(p2);
}

static struct dec decide(const char *call, const char *p1, const char *p2) {
    struct dec d = {0, 0, 0, NULL};
    if (nrules == 0) return d;
    int mut = is_mut(call);
    pthread_mutex_lock(&mu);
    for (int i = 0; i < nrules; i++) {
        struct rule *r = &rules[i];
        if (!(!strcmp(r->call, "*") || !strcmp(r->call, call) || (mut && !strcmp(r->call, "mut")))) continue;
        if (r->sub[0] && !((p1 && strstr(p1, r->sub)) || (p2 && strstr(p2, r->sub)))) continue;
        r->count++;
        if (r->nth > 0 && r->count != r->nth) continue;
        if (r->nth < 0 && r->count < -r->nth) continue;       /* negative: from the |nth|-th matching call on */
        switch (r->action) {
        case 1: d.fail = 1; d.err = r->err; break;
        case 2:
            pthread_mutex_unlock(&mu);
            logline("KILL", p1, p2, 0, 0, 1, 0, 0);
            syscall(SYS_kill, getpid(), SIGKILL);
            for (;;) pause();
        case 3: d.kill_after = 1; break;
        case 4: pthread_mutex_unlock(&mu); run_cmd(r->cmd); pthread_mutex_lock(&mu); break;
        case 5: d.run_after = r->cmd; break;
        }
    }
    pthread_mutex_unlock(&mu);
    return d;
}

static void after(struct dec *d, const char *p1, const char *p2) {
    if (d->run_after) run_cmd(d->run_after);
    if (d->kill_after) {
        logline("KILL", p1, p2, 0, 0, 2, 0, 0);
        syscall(SYS_kill, getpid(), SIGKILL);
        for (;;) pause();
    }
}

#define REAL(name) static __typeof__(name) *real = NULL; if (!real) real = dlsym(RTLD_NEXT, #name);

static void track(int fd, const char *path, int wr) {
    if (fd < 0 || fd >= MAXFD) return;
    pthread_mutex_lock(&mu);
    free(fdpath[fd]);
    fdpath[fd] = path ? strdup(path) : NULL;
    fdwr[fd] = (char)wr;
    copied[fd] = 0;
    pthread_mutex_unlock(&mu);
}

static char *fdp(int fd, char *buf) {
    if (fd < 0 || fd >= MAXFD) return NULL;
    char *r = NULL;
    pthread_mutex_lock(&mu);
    if (fdpath[fd]) { strncpy(buf, fdpath[fd], PATH_MAX - 1); buf[PATH_MAX - 1] = 0; r = buf; }
    pthread_mutex_unlock(&mu);
    return r;
}

/* ---------- open family ---------- */
static int do_open(int dirfd, const char *path, int flags, mode_t mode, int which) {
    static int (*r_openat)(int, const char *, int, ...) = NULL;
    if (!r_openat) r_openat = dlsym(RTLD_NEXT, "openat64");
    if (!r_openat) r_openat = dlsym(RTLD_NEXT, "openat");
    (void)which;
    init();
    char b[PATH_MAX];
    char *ap = abs_path(dirfd, path, b);
    int wr = (flags & O_ACCMODE) != O_RDONLY || (flags & (O_CREAT | O_TRUNC));
    if (!relevant(ap, NULL)) return r_openat(dirfd, path, flags, mode);
    const char *cls = (flags & O_DIRECTORY) ? "opendir" : (wr ? "openw" : "openr");
    struct dec d = decide(cls, ap, NULL);
    int ret, e;
    if (d.fail) { ret = -1; e = d.err; }
    else { ret = r_openat(dirfd, path, flags, mode); e = errno; }
    if (ret >= 0) track(ret, ap, wr);
    logline(cls, ap, NULL, ret, ret < 0 ? e : 0, d.fail, flags, 0);
    after(&d, ap, NULL);
    errno = e;
    return ret;
}

int open(const char *path, int flags, ...) {
    mode_t mode = 0;
    if (flags & (O_CREAT | O_TMPFILE)) { va_list ap; va_start(ap, flags); mode = va_arg(ap, mode_t); va_end(ap); }
    return do_open(AT_FDCWD, path, flags, mode, 0);
}
int open64(const char *path, int flags, ...) {
    mode_t mode = 0;
    if (flags & (O_CREAT | O_TMPFILE)) { va_list ap; va_start(ap, flags); mode = va_arg(ap, mode_t); va_end(ap); }
    return do_open(AT_FDCWD, path, flags, mode, 1);
}
int openat(int dirfd, const char *path, int flags, ...) {
    mode_t mode = 0;
    if (flags & (O_CREAT | O_TMPFILE)) { va_list ap; va_start(ap, flags); mode = va_arg(ap, mode_t); va_end(ap); }
    return do_open(dirfd, path, flags, mode, 2);
}
int openat64(int dirfd, const char *path, int flags, ...) {
    mode_t mode = 0;
    if (flags & (O_CREAT | O_TMPFILE)) { va_list ap; va_start(ap, flags); mode = va_arg(ap, mode_t); va_end(ap); }
    return do_open(dirfd, path, flags, mode, 3);
}
int creat(const char *path, mode_t mode) { return do_open(AT_FDCWD, path, O_CREAT | O_WRONLY | O_TRUNC, mode, 4); }
int creat64(const char *path, mode_t mode) { return do_open(AT_FDCWD, path, O_CREAT | O_WRONLY | O_TRUNC, mode, 4); }

int close(int fd) {
    REAL(close);
    init();
    char b[PATH_MAX];
    char *p = fdp(fd, b);
    if (!p) return real(fd);
    struct dec d = decide("close", p, NULL);
    /* forget the descriptor BEFORE it is really closed: once closed the number can be handed to another thread's open,
     * whose entry must not be wiped by this thread */
    int wr = fdwr[fd];
    track(fd, NULL, 0);
    int ret = real(fd), e = errno;
    logline("close", p, NULL, ret, ret < 0 ? e : 0, 0, wr, 0);
    after(&d, p, NULL);
    errno = e;
    return ret;
}

ssize_t read(int fd, void *buf, size_t n) {
    REAL(read);
    if (!inited) return real(fd, buf, n);
    char b[PATH_MAX];
    char *p = fdp(fd, b);
    if (!p) return real(fd, buf, n);
    struct dec d = decide("read", p, NULL);
    ssize_t ret; int e;
    if (d.fail) { ret = -1; e = d.err; } else { ret = real(fd, buf, n); e = errno; }
    logline("read", p, NULL, ret, ret < 0 ? e : 0, d.fail, (long)n, 0);
    after(&d, p, NULL);
    errno = e;
    return ret;
}

ssize_t write(int fd, const void *buf, size_t n) {
    REAL(write);
    if (!inited) return real(fd, buf, n);
    char b[PATH_MAX];
    char *p = fdp(fd, b);
    if (!p) return real(fd, buf, n);
    struct dec d = decide("write", p, NULL);
    ssize_t ret; int e;
    if (d.fail) { ret = -1; e = d.err; } else { ret = real(fd, buf, n); e = errno; }
    logline("write", p, NULL, ret, ret < 0 ? e : 0, d.fail, (long)n, 0);
    after(&d, p, NULL);
    errno = e;
    return ret;
}

/* ---------- stat family ---------- */
int statx(int dirfd, const char *path, int flags, unsigned int mask, struct statx *stx) {
    REAL(statx);
    init();
    char b[PATH_MAX], b2[PATH_MAX];
    char *ap;
    if (path && path[0] == 0 && (flags & AT_EMPTY_PATH)) ap = fdp(dirfd, b2);
    else ap = abs_path(dirfd, path, b);
    if (!ap || !relevant(ap, NULL)) return real(dirfd, path, flags, mask, stx);
    const char *cls = (flags & AT_SYMLINK_NOFOLLOW) ? "lstat" : "stat";
    struct dec d = decide(cls, ap, NULL);
    int ret, e;
    if (d.fail) { ret = -1; e = d.err; } else { ret = real(dirfd, path, flags, mask, stx); e = errno; }
    logline(cls, ap, NULL, ret, ret < 0 ? e : 0, d.fail, 0, 0);
    after(&d, ap, NULL);
    errno = e;
    return ret;
}

#define STATLIKE(fname, cls, follow)                                                           \
    int fname(const char *path, struct stat *st) {                                              \
        REAL(fname);                                                                            \
        init();                                                                                 \
        char b[PATH_MAX];                                                                       \
        char *ap = abs_path(AT_FDCWD, path, b);                                                 \
        if (!relevant(ap, NULL)) return real(path, st);                                         \
        struct dec d = decide(cls, ap, NULL);                                                   \
        int ret, e;                                                                             \
        if (d.fail) { ret = -1; e = d.err; } else { ret = real(path, st); e = errno; }          \
        logline(cls, ap, NULL, ret, ret < 0 ? e : 0, d.fail, 0, 0);                             \
        after(&d, ap, NULL);                                                                    \
        errno = e;                                                                              \
        return ret;                                                                             \
    }
STATLIKE(stat, "stat", 1)
STATLIKE(lstat, "lstat", 0)
int stat64(const char *path, struct stat64 *st) {
    REAL(stat64);
    init();
    char b[PATH_MAX];
    char *ap = abs_path(AT_FDCWD, path, b);
    if (!relevant(ap, NULL)) return real(path, st);
    struct dec d = decide("stat", ap, NULL);
    int ret, e;
    if (d.fail) { ret = -1; e = d.err; } else { ret = real(path, st); e = errno; }
    logline("stat", ap, NULL, ret, ret < 0 ? e : 0, d.fail, 0, 0);
    after(&d, ap, NULL);
    errno = e;
    return ret;
}
int lstat64(const char *path, struct stat64 *st) {
    REAL(lstat64);
    init();
    char b[PATH_MAX];
    char *ap = abs_path(AT_FDCWD, path, b);
    if (!relevant(ap, NULL)) return real(path, st);
    struct dec d = decide("lstat", ap, NULL);
    int ret, e;
    if (d.fail) { ret = -1; e = d.err; } else { ret = real(path, st); e = errno; }
    logline("lstat", ap, NULL, ret, ret < 0 ? e : 0, d.fail, 0, 0);
    after(&d, ap, NULL);
    errno = e;
    return ret;
}
int fstatat(int dirfd, const char *path, struct stat *st, int flags) {
    REAL(fstatat);
    init();
    char b[PATH_MAX];
    char *ap = abs_path(dirfd, path, b);
    if (!relevant(ap, NULL)) return real(dirfd, path, st, flags);
    const char *cls = (flags & AT_SYMLINK_NOFOLLOW) ? "lstat" : "stat";
    struct dec d = decide(cls, ap, NULL);
    int ret, e;
    if (d.fail) { ret = -1; e = d.err; } else { ret = real(dirfd, path, st, flags); e = errno; }
    logline(cls, ap, NULL, ret, ret < 0 ? e : 0, d.fail, 0, 0);
    after(&d, ap, NULL);
    errno = e;
    return ret;
}
int fstatat64(int dirfd, const char *path, struct stat64 *st, int flags) {
    REAL(fstatat64);
    init();
    char b[PATH_MAX];
    char *ap = abs_path(dirfd, path, b);
    if (!relevant(ap, NULL)) return real(dirfd, path, st, flags);
    const char *cls = (flags & AT_SYMLINK_NOFOLLOW) ? "lstat" : "stat";
    struct dec d = decide(cls, ap, NULL);
    int ret, e;
    if (d.fail) { ret = -1; e = d.err; } else { ret = real(dirfd, path, st, flags); e = errno; }
    logline(cls, ap, NULL, ret, ret < 0 ? e : 0, d.fail, 0, 0);
    after(&d, ap, NULL);
    errno = e;
    return ret;
}

/* ---------- directories ---------- */
struct dirrec { DIR *d; char *path; };
static struct dirrec dirs[4096];

static void dir_track(DIR *dp, const char *p) {
    pthread_mutex_lock(&mu);
    for (int i = 0; i < 4096; i++)
        if (!dirs[i].d) { dirs[i].d = dp; dirs[i].path = strdup(p); break; }
    pthread_mutex_unlock(&mu);
}
static char *dir_path(DIR *dp, char *buf, int drop) {
    char *r = NULL;
    pthread_mutex_lock(&mu);
    for (int i = 0; i < 4096; i++)
        if (dirs[i].d == dp) {
            strncpy(buf, dirs[i].path, PATH_MAX - 1); buf[PATH_MAX - 1] = 0; r = buf;
            if (drop) { free(dirs[i].path); dirs[i].d = NULL; dirs[i].path = NULL; }
            break;
        }
    pthread_mutex_unlock(&mu);
    return r;
}

DIR *opendir(const char *path) {
    REAL(opendir);
    init();
    char b[PATH_MAX];
    char *ap = abs_path(AT_FDCWD, path, b);
    if (!relevant(ap, NULL)) return real(path);
    struct dec d = decide("opendir", ap, NULL);
    DIR *ret; int e;
    if (d.fail) { ret = NULL; e = d.err; } else { ret = real(path); e = errno; }
    if (ret) dir_track(ret, ap);
    logline("opendir", ap, NULL, ret ? 0 : -1, ret ? 0 : e, d.fail, 0, 0);
    after(&d, ap, NULL);
    errno = e;
    return ret;
}
DIR *fdopendir(int fd) {
    REAL(fdopendir);
    init();
    char b[PATH_MAX];
    char *p = fdp(fd, b);
    DIR *ret = real(fd);
    if (ret && p) dir_track(ret, p);
    return ret;
}
struct dirent64 *readdir64(DIR *dp) {
    REAL(readdir64);
    if (!inited) return real(dp);
    char b[PATH_MAX];
    char *p = dir_path(dp, b, 0);
    if (!p) return real(dp);
    struct dec d = decide("readdir", p, NULL);
    struct dirent64 *ret; int e;
    if (d.fail) { ret = NULL; e = d.err; }
    else { int saved = errno; errno = 0; ret = real(dp); e = errno; if (ret || e == 0) { e = ret ? saved : 0; } }
    char b2[PATH_MAX + 300];
    if (ret) snprintf(b2, sizeof b2, "%s/%s", p, ret->d_name);
    logline("readdir", p, ret ? b2 : NULL, ret ? 0 : -1, ret ? 0 : e, d.fail, 0, 0);
    after(&d, p, NULL);
    if (!ret) errno = e;
    return ret;
}
struct dirent *readdir(DIR *dp) { return (struct dirent *)readdir64(dp); }
int closedir(DIR *dp) {
    REAL(closedir);
    char b[PATH_MAX];
    if (inited) dir_path(dp, b, 1);
    return real(dp);
}

ssize_t readlink(const char *path, char *buf, size_t n) {
    REAL(readlink);
    init();
    char b[PATH_MAX];
    char *ap = abs_path(AT_FDCWD, path, b);
    if (!relevant(ap, NULL)) return real(path, buf, n);
    struct dec d = decide("readlink", ap, NULL);
    ssize_t ret; int e;
    if (d.fail) { ret = -1; e = d.err; } else { ret = real(path, buf, n); e = errno; }
    logline("readlink", ap, NULL, ret, ret < 0 ? e : 0, d.fail, 0, 0);
    after(&d, ap, NULL);
    errno = e;
    return ret;
}
ssize_t readlinkat(int dirfd, const char *path, char *buf, size_t n) {
    REAL(readlinkat);
    init();
    char b[PATH_MAX];
    char *ap = abs_path(dirfd, path, b);
    if (!relevant(ap, NULL)) return real(dirfd, path, buf, n);
    struct dec d = decide("readlink", ap, NULL);
    ssize_t ret; int e;
    if (d.fail) { ret = -1; e = d.err; } else { ret = real(dirfd, path, buf, n); e = errno; }
    logline("readlink", ap, NULL, ret, ret < 0 ? e : 0, d.fail, 0, 0);
    after(&d, ap, NULL);
    errno = e;
    return ret;
}

/* ---------- mutating path calls ---------- */
#define TWO_PATH(cls, callexpr, P1, P2)                                                       \
    init();                                                                                    \
    char b1[PATH_MAX], b2[PATH_MAX];                                                           \
    char *a1 = P1, *a2 = P2;                                                                   \
    if (!relevant(a1, a2)) return callexpr;                                                    \
    struct dec d = decide(cls, a1, a2);                                                        \
    int ret, e;                                                                                \
    if (d.fail) { ret = -1; e = d.err; } else { ret = callexpr; e = errno; }                   \
    logline(cls, a1, a2, ret, ret < 0 ? e : 0, d.fail, 0, 0);                                  \
    after(&d, a1, a2);                                                                         \
    errno = e;                                                                                 \
    return ret;

int rename(const char *a, const char *b) {
    REAL(rename);
    TWO_PATH("rename", real(a, b), abs_path(AT_FDCWD, a, b1), abs_path(AT_FDCWD, b, b2))
}
int renameat(int fa, const char *a, int fb, const char *b) {
    REAL(renameat);
    TWO_PATH("rename", real(fa, a, fb, b), abs_path(fa, a, b1), abs_path(fb, b, b2))
}
int renameat2(int fa, const char *a, int fb, const char *b, unsigned int fl) {
    REAL(renameat2);
    TWO_PATH("rename", real(fa, a, fb, b, fl), abs_path(fa, a, b1), abs_path(fb, b, b2))
}
int link(const char *a, const char *b) {
    REAL(link);
    TWO_PATH("link", real(a, b), abs_path(AT_FDCWD, a, b1), abs_path(AT_FDCWD, b, b2))
}
int linkat(int fa, const char *a, int fb, const char *b, int fl) {
    REAL(linkat);
    TWO_PATH("link", real(fa, a, fb, b, fl), abs_path(fa, a, b1), abs_path(fb, b, b2))
}
int symlink(const char *t, const char *l) {
    REAL(symlink);
    /* p1 = link path (absolute), p2 = target text as given */
    init();
    char b1[PATH_MAX];
    char *a1 = abs_path(AT_FDCWD, l, b1);
    if (!relevant(a1, NULL)) return real(t, l);
    struct dec d = decide("symlink", a1, t);
    int ret, e;
    if (d.fail) { ret = -1; e = d.err; } else { ret = real(t, l); e = errno; }
    logline("symlink", a1, t, ret, ret < 0 ? e : 0, d.fail, 0, 0);
    after(&d, a1, t);
    errno = e;
    return ret;
}
int symlinkat(const char *t, int fd, const char *l) {
    REAL(symlinkat);
    init();
    char b1[PATH_MAX];
    char *a1 = abs_path(fd, l, b1);
    if (!relevant(a1, NULL)) return real(t, fd, l);
    struct dec d = decide("symlink", a1, t);
    int ret, e;
    if (d.fail) { ret = -1; e = d.err; } else { ret = real(t, fd, l); e = errno; }
    logline("symlink", a1, t, ret, ret < 0 ? e : 0, d.fail, 0, 0);
    after(&d, a1, t);
    errno = e;
    return ret;
}

#define ONE_PATH(cls, callexpr, P1, A)                                                        \
    init();                                                                                    \
    char b1[PATH_MAX];                                                                         \
    char *a1 = P1;                                                                             \
    if (!a1 || !relevant(a1, NULL)) return callexpr;                                           \
    struct dec d = decide(cls, a1, NULL);                                                      \
    int ret, e;                                                                                \
    if (d.fail) { ret = -1; e = d.err; } else { ret = callexpr; e = errno; }                   \
    logline(cls, a1, NULL, ret, ret < 0 ? e : 0, d.fail, (long)(A), 0);                        \
    after(&d, a1, NULL);                                                                       \
    errno = e;                                                                                 \
    return ret;

int unlink(const char *p) { REAL(unlink); ONE_PATH("unlink", real(p), abs_path(AT_FDCWD, p, b1), 0) }
int unlinkat(int fd, const char *p, int fl) {
    REAL(unlinkat);
    ONE_PATH((fl & AT_REMOVEDIR) ? "rmdir" : "unlink", real(fd, p, fl), abs_path(fd, p, b1), 0)
}
int rmdir(const char *p) { REAL(rmdir); ONE_PATH("rmdir", real(p), abs_path(AT_FDCWD, p, b1), 0) }
int mkdir(const char *p, mode_t m) { REAL(mkdir); ONE_PATH("mkdir", real(p, m), abs_path(AT_FDCWD, p, b1), m) }
int mkdirat(int fd, const char *p, mode_t m) { REAL(mkdirat); ONE_PATH("mkdir", real(fd, p, m), abs_path(fd, p, b1), m) }
int truncate(const char *p, off_t l) { REAL(truncate); ONE_PATH("truncate", real(p, l), abs_path(AT_FDCWD, p, b1), l) }
int truncate64(const char *p, off64_t l) { REAL(truncate64); ONE_PATH("truncate", real(p, l), abs_path(AT_FDCWD, p, b1), l) }
int ftruncate(int fd, off_t l) { REAL(ftruncate); ONE_PATH("truncate", real(fd, l), fdp(fd, b1), l) }
int ftruncate64(int fd, off64_t l) { REAL(ftruncate64); ONE_PATH("truncate", real(fd, l), fdp(fd, b1), l) }
int chmod(const char *p, mode_t m) { REAL(chmod); ONE_PATH("chmod", real(p, m), abs_path(AT_FDCWD, p, b1), m) }
int fchmod(int fd, mode_t m) { REAL(fchmod); ONE_PATH("chmod", real(fd, m), fdp(fd, b1), m) }
int fchmodat(int fd, const char *p, mode_t m, int fl) { REAL(fchmodat); ONE_PATH("chmod", real(fd, p, m, fl), abs_path(fd, p, b1), m) }
int chown(const char *p, uid_t u, gid_t g) { REAL(chown); ONE_PATH("chown", real(p, u, g), abs_path(AT_FDCWD, p, b1), u) }
int lchown(const char *p, uid_t u, gid_t g) { REAL(lchown); ONE_PATH("chown", real(p, u, g), abs_path(AT_FDCWD, p, b1), u) }
int fchown(int fd, uid_t u, gid_t g) { REAL(fchown); ONE_PATH("chown", real(fd, u, g), fdp(fd, b1), u) }
int fchownat(int fd, const char *p, uid_t u, gid_t g, int fl) { REAL(fchownat); ONE_PATH("chown", real(fd, p, u, g, fl), abs_path(fd, p, b1), u) }
int utimensat(int fd, const char *p, const struct timespec t[2], int fl) {
    REAL(utimensat);
    ONE_PATH("utimes", real(fd, p, t, fl), p ? abs_path(fd, p, b1) : fdp(fd, b1), 0)
}
int futimens(int fd, const struct timespec t[2]) { REAL(futimens); ONE_PATH("utimes", real(fd, t), fdp(fd, b1), 0) }
int utimes(const char *p, const struct timeval t[2]) { REAL(utimes); ONE_PATH("utimes", real(p, t), abs_path(AT_FDCWD, p, b1), 0) }
int mkfifo(const char *p, mode_t m) { REAL(mkfifo); ONE_PATH("mkfifo", real(p, m), abs_path(AT_FDCWD, p, b1), m) }
int mknod(const char *p, mode_t m, dev_t dv) { REAL(mknod); ONE_PATH("mkfifo", real(p, m, dv), abs_path(AT_FDCWD, p, b1), m) }

/* ---------- fcntl locks, ioctl clone / fiemap, copy ---------- */
int fcntl(int fd, int cmd, ...) {
    static int (*real)(int, int, ...) = NULL;
    if (!real) real = dlsym(RTLD_NEXT, "fcntl64");
    if (!real) real = dlsym(RTLD_NEXT, "fcntl");
    va_list ap; va_start(ap, cmd); void *arg = va_arg(ap, void *); va_end(ap);
    if (!inited || !(cmd == F_SETLK || cmd == F_SETLKW || cmd == F_OFD_SETLK)) return real(fd, cmd, arg);
    char b[PATH_MAX];
    char *p = fdp(fd, b);
    if (!p) return real(fd, cmd, arg);
    struct flock *fl = arg;
    int ltype = fl ? fl->l_type : -1;
    struct dec d = decide("lock", p, NULL);
    int ret, e;
    if (d.fail) { ret = -1; e = d.err; } else { ret = real(fd, cmd, arg); e = errno; }
    logline("lock", p, NULL, ret, ret < 0 ? e : 0, d.fail, ltype, 0);
    after(&d, p, NULL);
    errno = e;
    return ret;
}
int fcntl64(int fd, int cmd, ...) {
    va_list ap; va_start(ap, cmd); void *arg = va_arg(ap, void *); va_end(ap);
    return fcntl(fd, cmd, arg);
}

/* ioctl(dst, FICLONE, src) in the order of the kernel's checks (fs/ioctl.c ioctl_file_clone -> fs/remap_range.c vfs_clone_file_range ->
 * generic_remap_file_range_prep): other file system -> EXDEV; a directory -> EISDIR; not a regular file -> EINVAL; empty source -> 0, nothing
 * done; one inode (overlapping ranges) -> EINVAL; otherwise bytes [0, size(src)) of dst are replaced, dst grows if shorter and is NOT shrunk */
static int emulate_clone(int dst, int src) {
    struct stat st, dt;
    if (fstat(src, &st) < 0 || fstat(dst, &dt) < 0) { errno = EBADF; return -1; }
    if (st.st_dev != dt.st_dev) { errno = EXDEV; return -1; }
    if (S_ISDIR(st.st_mode) || S_ISDIR(dt.st_mode)) { errno = EISDIR; return -1; }
    if (!S_ISREG(st.st_mode) || !S_ISREG(dt.st_mode)) { errno = EINVAL; return -1; }
    if (st.st_size == 0) return 0;
    if (st.st_ino == dt.st_ino) { errno = EINVAL; return -1; }
    char buf[65536];
    off_t off = 0;
    while (off < st.st_size) {
        ssize_t r = pread(src, buf, sizeof buf, off);
        if (r < 0) return -1;
        if (r == 0) break;
        ssize_t w = pwrite(dst, buf, (size_t)r, off);
        if (w != r) return -1;
        off += r;
    }
    return 0;
}

int ioctl(int fd, unsigned long req, ...) {
    REAL(ioctl);
    va_list ap; va_start(ap, req); void *arg = va_arg(ap, void *); va_end(ap);
    if (!inited || !(req == FICLONE || req == FS_IOC_FIEMAP)) return real(fd, req, arg);
    char b[PATH_MAX], b2[PATH_MAX];
    char *p = fdp(fd, b);
    if (!p) return real(fd, req, arg);
    if (req == FICLONE) {
        int src = (int)(intptr_t)arg;
        char *sp = fdp(src, b2);
        struct dec d = decide("clone", p, sp);
        int ret, e;
        if (d.fail) { ret = -1; e = d.err; }
        else if (emu_clone) { ret = emulate_clone(fd, src); e = errno; }
        else { ret = real(fd, req, arg); e = errno; }
        logline("clone", p, sp, ret, ret < 0 ? e : 0, d.fail, emu_clone, 0);
        after(&d, p, sp);
        errno = e;
        return ret;
    } else {
        struct dec d = decide("fiemap", p, NULL);
        int ret, e;
        if (d.fail) { ret = -1; e = d.err; } else { ret = real(fd, req, arg); e = errno; }
        logline("fiemap", p, NULL, ret, ret < 0 ? e : 0, d.fail, 0, 0);
        after(&d, p, NULL);
        errno = e;
        return ret;
    }
}

ssize_t copy_file_range(int fin, off64_t *oin, int fout, off64_t *oout, size_t len, unsigned int flags) {
    REAL(copy_file_range);
    if (!inited) return real(fin, oin, fout, oout, len, flags);
    char b[PATH_MAX], b2[PATH_MAX];
    char *pi = fdp(fin, b), *po = fdp(fout, b2);
    if (!po && !pi) return real(fin, oin, fout, oout, len, flags);
    struct dec d = decide("copy", po, pi);
    ssize_t ret; int e;
    /* "cannot be used here" errnos are only possible on the first call for a file pair (the kernel decides that before copying
     * anything; Rust's std asserts it): once data went through, such a planned errno is delivered as EIO */
    if (d.fail && fout >= 0 && fout < MAXFD && copied[fout] &&
        (d.err == EPERM || d.err == ENOSYS || d.err == EOPNOTSUPP || d.err == EINVAL || d.err == EBADF || d.err == EXDEV))
        d.err = EIO;
    if (d.fail) { ret = -1; e = d.err; } else { ret = real(fin, oin, fout, oout, len, flags); e = errno; }
    if (ret > 0 && fout >= 0 && fout < MAXFD) copied[fout] = 1;
    logline("copy", po, pi, ret, ret < 0 ? e : 0, d.fail, (long)len, 0);
    after(&d, po, pi);
    errno = e;
    return ret;
}

ssize_t sendfile(int fout, int fin, off_t *off, size_t len) {
    REAL(sendfile);
    if (!inited) return real(fout, fin, off, len);
    char b[PATH_MAX], b2[PATH_MAX];
    char *pi = fdp(fin, b), *po = fdp(fout, b2);
    if (!po && !pi) return real(fout, fin, off, len);
    struct dec d = decide("copy", po, pi);
    ssize_t ret; int e;
    if (d.fail && fout >= 0 && fout < MAXFD && copied[fout] &&
        (d.err == EPERM || d.err == ENOSYS || d.err == EOPNOTSUPP || d.err == EINVAL || d.err == EBADF || d.err == EXDEV))
        d.err = EIO;          /* see copy_file_range */
    if (d.fail) { ret = -1; e = d.err; } else { ret = real(fout, fin, off, len); e = errno; }
    if (ret > 0 && fout >= 0 && fout < MAXFD) copied[fout] = 1;
    logline("copy", po, pi, ret, ret < 0 ? e : 0, d.fail, (long)len, 1);
    after(&d, po, pi);
    errno = e;
    return ret;
}
ssize_t sendfile64(int fout, int fin, off64_t *off, size_t len) {
    REAL(sendfile64);
    if (!inited) return real(fout, fin, off, len);
    char b[PATH_MAX], b2[PATH_MAX];
    char *pi = fdp(fin, b), *po = fdp(fout, b2);
    if (!po && !pi) return real(fout, fin, off, len);
    struct dec d = decide("copy", po, pi);
    ssize_t ret; int e;
    if (d.fail && fout >= 0 && fout < MAXFD && copied[fout] &&
        (d.err == EPERM || d.err == ENOSYS || d.err == EOPNOTSUPP || d.err == EINVAL || d.err == EBADF || d.err == EXDEV))
        d.err = EIO;          /* see copy_file_range */
    if (d.fail) { ret = -1; e = d.err; } else { ret = real(fout, fin, off, len); e = errno; }
    if (ret > 0 && fout >= 0 && fout < MAXFD) copied[fout] = 1;
    logline("copy", po, pi, ret, ret < 0 ? e : 0, d.fail, (long)len, 1);
    after(&d, po, pi);
    errno = e;
    return ret;
}

/* A delayed SIGKILL: FSSHIM_KILL_DELAY_MS=<n> lets a freshly spawned child run for n ms before the parent's kill takes
 * effect - the schedule in which the scheduler runs the child first. */
int kill(pid_t pid, int sig) {
    REAL(kill);
    const char *d = getenv("FSSHIM_KILL_DELAY_MS");
    if (d && sig == SIGKILL) usleep((useconds_t)atoi(d) * 1000);
    return real(pid, sig);
}
