#!/bin/sh
exit 0
