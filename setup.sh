#!/bin/sh
# Builds the shim, the fclones binary (hooks on) and the harness from files on disk only.
cd "$(dirname "$0")" || exit 2
export CARGO_NET_OFFLINE=true
python3 - <<'PY'
import sys
sys.path.insert(0, "driver")
import lib
lib.build_all()
print("setup ok")
PY
